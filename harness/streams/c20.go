//go:build c19 || c20

package streams

import (
	"bufio"
	"bytes"
	"context"
	"crypto/tls"
	"fmt"
	"net"
	"net/http"
	"net/http/httptest"
	"net/url"
	"os"
	"sort"
	"strconv"
	"strings"
	"sync"
	"time"

	"golang.org/x/net/http/httpguts"

	"github.com/tmpim/casket/caskethttp/httpserver"

	"verifharness/hx"
)

// c20.replace — the real httpserver.NewReplacer(...).Replace(fmt) on a real *http.Request.
//
// fields (see lean/Driver/C20.lean):
//   0 fmt  1 empty  2 RAW request head  3 remote addr  4 REWRITE target or -  5 sets (k:v,...)  6 tls
//   7 request id or -  8 mitm -/0/1  9 recorder -/status:size  10 response header  11 os env
//   then the views net/http derives from RAW/REWRITE (checked by Eval, read by the model):
//   12 request header  13 cookies  14 query  15 method  16 host  17 proto  18 SplitHostPort(host)
//   19 SplitHostPort(remote)  20..23 original path, raw query, fragment, RequestURI  24 25 current path, RequestURI
//
// The request is parsed by http.ReadRequest and given the context values Server.ServeHTTP gives it.

const c20NRaw = 12

var c20EnvOnce sync.Once

// the process environment the cases may mention; everything else is removed so that a random
// `{$NAME}` cannot hit a variable of the machine.
var c20Env = [][2]string{
	{"VERIF_C20_A", "env{status}val"},
	{"VERIF_C20_B", `\{x\}`},
	{"VERIF_C20_E", ""},
}

func c20SetEnv() {
	c20EnvOnce.Do(func() {
		os.Clearenv()
		for _, kv := range c20Env {
			os.Setenv(kv[0], kv[1])
		}
	})
}

func c20Pairs(kvs [][2]string) string {
	out := make([]string, len(kvs))
	for i, kv := range kvs {
		out[i] = hx.HS(kv[0]) + ":" + hx.HS(kv[1])
	}
	return strings.Join(out, ",")
}

func c20UnPairs(s string) [][2]string {
	if s == "" {
		return nil
	}
	var out [][2]string
	for _, e := range strings.Split(s, ",") {
		p := strings.Split(e, ":")
		if len(p) != 2 {
			panic("bad pair list")
		}
		out = append(out, [2]string{hx.UnHS(p[0]), hx.UnHS(p[1])})
	}
	return out
}

func c20Multi(h http.Header) string {
	keys := make([]string, 0, len(h))
	for k := range h {
		keys = append(keys, k)
	}
	sort.Strings(keys)
	out := make([]string, len(keys))
	for i, k := range keys {
		parts := []string{hx.HS(k)}
		for _, v := range h[k] {
			parts = append(parts, hx.HS(v))
		}
		if len(parts) == 1 {
			parts = append(parts, "")
		}
		out[i] = strings.Join(parts, ":")
	}
	return strings.Join(out, ",")
}

func c20UnMulti(s string) http.Header {
	h := http.Header{}
	if s == "" {
		return h
	}
	for _, e := range strings.Split(s, ",") {
		p := strings.Split(e, ":")
		k := hx.UnHS(p[0])
		for _, v := range p[1:] {
			h[k] = append(h[k], hx.UnHS(v))
		}
	}
	return h
}

func c20Split(hp string) string {
	h, p, err := net.SplitHostPort(hp)
	if err != nil {
		return "-"
	}
	return hx.HS(h) + ":" + hx.HS(p)
}

// c20Request builds the request the way the server would hand it to the middleware chain and
// returns the view fields (12..25).
func c20Request(raw, remote, rewrite string, useTLS bool, reqid, mitm string) (*http.Request, []string, error) {
	req, err := http.ReadRequest(bufio.NewReader(strings.NewReader(raw)))
	if err != nil {
		return nil, nil, err
	}
	// what net/http's server refuses before any handler runs
	if !httpguts.ValidHostHeader(req.Host) {
		return nil, nil, fmt.Errorf("invalid host")
	}
	for k, vs := range req.Header {
		if !httpguts.ValidHeaderFieldName(k) {
			return nil, nil, fmt.Errorf("invalid header name")
		}
		for _, v := range vs {
			if !httpguts.ValidHeaderFieldValue(v) {
				return nil, nil, fmt.Errorf("invalid header value")
			}
		}
	}
	req.RemoteAddr = remote
	if useTLS {
		req.TLS = &tls.ConnectionState{}
	}
	orig := *req.URL
	ctx := context.WithValue(req.Context(), httpserver.OriginalURLCtxKey, orig)
	if reqid != "-" {
		ctx = context.WithValue(ctx, httpserver.RequestIDCtxKey, hx.UnHS(reqid))
	}
	if mitm != "-" {
		ctx = context.WithValue(ctx, httpserver.MitmCtxKey, mitm == "1")
	}
	req = req.WithContext(ctx)
	if rewrite != "-" {
		u, err := url.ParseRequestURI(hx.UnHS(rewrite))
		if err != nil {
			return nil, nil, err
		}
		req.URL = u
	}
	var cookies [][2]string
	for _, c := range req.Cookies() {
		cookies = append(cookies, [2]string{c.Name, c.Value})
	}
	q := req.URL.Query()
	qk := make([]string, 0, len(q))
	for k := range q {
		qk = append(qk, k)
	}
	sort.Strings(qk)
	var query [][2]string
	for _, k := range qk {
		query = append(query, [2]string{k, q.Get(k)})
	}
	views := []string{
		c20Multi(req.Header), c20Pairs(cookies), c20Pairs(query),
		hx.HS(req.Method), hx.HS(req.Host), hx.HS(req.Proto), c20Split(req.Host), c20Split(remote),
		hx.HS(orig.Path), hx.HS(orig.RawQuery), hx.HS(orig.Fragment), hx.HS(orig.RequestURI()),
		hx.HS(req.URL.Path), hx.HS(req.URL.RequestURI()),
	}
	return req, views, nil
}

func c20ReplaceEval(f []string) (out string, tags []string) {
	if len(f) != c20NRaw+14 {
		return "bad-case", nil
	}
	c20SetEnv()
	format, empty := hx.UnHS(f[0]), hx.UnHS(f[1])
	req, views, err := c20Request(hx.UnHS(f[2]), hx.UnHS(f[3]), f[4], f[6] == "1", f[7], f[8])
	if err != nil {
		return "bad-case:" + err.Error(), nil
	}
	for i, v := range views {
		if f[c20NRaw+i] != v {
			return fmt.Sprintf("bad-case:view %d is not what net/http derives", c20NRaw+i), nil
		}
	}
	for _, kv := range c20UnPairs(f[11]) {
		if os.Getenv(kv[0]) != kv[1] {
			return "bad-case:environment", nil
		}
	}
	var rr *httpserver.ResponseRecorder
	if f[9] != "-" {
		p := strings.Split(f[9], ":")
		status, _ := strconv.Atoi(p[0])
		size, _ := strconv.Atoi(p[1])
		rr = httpserver.NewResponseRecorder(httptest.NewRecorder())
		for k, vs := range c20UnMulti(f[10]) {
			rr.Header()[k] = vs
		}
		rr.WriteHeader(status)
		rr.Write(make([]byte, size))
	}
	rep := httpserver.NewReplacer(req, rr, empty)
	for _, kv := range c20UnPairs(f[5]) {
		rep.Set(kv[0], kv[1])
	}
	// Replace runs under a watchdog: a version that scans inserted text again need not terminate
	type answer struct {
		s        string
		panicked bool
	}
	done := make(chan answer, 1)
	go func() {
		defer func() {
			if r := recover(); r != nil {
				done <- answer{panicked: true}
			}
		}()
		done <- answer{s: rep.Replace(format)}
	}()
	var res string
	select {
	case a := <-done:
		if a.panicked {
			return "PANIC", []string{"panic"}
		}
		res = a.s
	case <-time.After(5 * time.Second):
		return "HANG", []string{"hang"}
	}

	if !strings.ContainsAny(format, "{}") {
		tags = append(tags, "trivial-no-brace")
	} else {
		tags = append(tags, "brace")
	}
	if strings.Contains(format, `\{`) || strings.Contains(format, `\}`) {
		tags = append(tags, "escaped-brace")
	}
	if strings.ContainsAny(res, "{}") && strings.Contains(format, "{") {
		tags = append(tags, "brace-in-output")
	}
	for _, m := range c20Markers {
		if strings.Contains(res, m) {
			tags = append(tags, "request-text-with-placeholder-syntax-inserted")
			break
		}
	}
	if strings.Contains(res, `\n`) || strings.Contains(res, `\r`) {
		tags = append(tags, "escaped-line-break-in-output")
	}
	if empty != "" && strings.Contains(res, empty) {
		tags = append(tags, "empty-marker-in-output")
	}
	return hx.HS(res), tags
}

// request-controlled texts that look like placeholders
var c20Markers = []string{"{status}", "{>X-Inj}", "{size}", "{method}", "{~sid}", "{?q}", "{uri}", "{host}"}

type c20Req struct {
	raw, remote, rewrite string
	tls                  bool
	reqid, mitm          string
	recorder, resphdr    string
	sets                 [][2]string
}

func c20Raw(method, target, proto string, hdr ...string) string {
	var b strings.Builder
	b.WriteString(method + " " + target + " " + proto + "\r\n")
	for i := 0; i+1 < len(hdr); i += 2 {
		b.WriteString(hdr[i] + ": " + hdr[i+1] + "\r\n")
	}
	b.WriteString("\r\n")
	return b.String()
}

func c20Requests() []c20Req {
	rh := func(kv ...string) string {
		h := http.Header{}
		for i := 0; i+1 < len(kv); i += 2 {
			h[kv[i]] = append(h[kv[i]], kv[i+1])
		}
		return c20Multi(h)
	}
	return []c20Req{
		{raw: c20Raw("GET", "/a/b.txt?q=1&x=%7Bmethod%7D&q=2", "HTTP/1.1",
			"Host", "www.example.com:8080", "X-Inj", `{status}{>X-Inj}\{`, "Cookie", "sid={size}; t={~sid}",
			"Referer", "{uri}", "User-Agent", "ua}{", "X-Multi", "one", "X-Multi", "{two}"),
			remote: "192.0.2.1:4000", rewrite: "-", reqid: "-", mitm: "-",
			recorder: "200:1234", resphdr: rh("Content-Type", "text/{status}", "X-Resp", "a", "X-Resp", "b}")},
		{raw: c20Raw("POST", "/dir/", "HTTP/1.0", "Host", "localhost", "Content-Type", "application/json",
			"X-Inj", "} {?q} {"),
			remote: "[2001:db8::1]:443", rewrite: hx.HS("/re/written/{host}?r={?q}"), tls: true, reqid: hx.HS("id-{status}"), mitm: "1",
			recorder: "-", resphdr: "", sets: [][2]string{{"mykey", "custom{size}"}, {"method", "OVERRIDDEN"}, {"mykey", "second"}, {"nl", "x\r\ny\n{status}"}}},
		{raw: c20Raw("GET", `/{path}/\{x\}?{query}&q={?q}&%7B=%7D`, "HTTP/1.1", "Host", "[::1]:80", "Cookie", `a="{~a}"; {b}=c; sid=x`),
			remote: "nonsense", rewrite: "-", reqid: hx.HS(""), mitm: "0", recorder: "404:0", resphdr: ""},
		{raw: c20Raw("OPTIONS", "*", "HTTP/1.1", "Host", "a.b.c.d.e", "X-Inj", "{>X-Inj}"),
			remote: "", rewrite: "-", reqid: "-", mitm: "-", recorder: "503:17", resphdr: rh("X-Inj", "resp{>X-Inj}")},
		{raw: c20Raw("GET", "http://abs.example/p%0Aq?z=%0A#frag", "HTTP/1.1", "Host", "other.example"),
			remote: "10.0.0.1:1", rewrite: hx.HS("/"), reqid: "-", mitm: "-", recorder: "-", resphdr: ""},
		{raw: c20Raw("GET", "/", "HTTP/1.1", "Host", ""),
			remote: "{remote}:1", rewrite: "-", reqid: "-", mitm: "-", recorder: "302:0", resphdr: ""},
	}
}

// atoms formats are built from
var c20Lits = []string{"", "a", " ", `\`, `\\`, "{", "}", `\{`, `\}`, "{{", "}}", `x\`, "é", `\a`, "-", "}{"}
var c20Keys = []string{
	"{method}", "{scheme}", "{host}", "{hostonly}", "{path}", "{path_escaped}", "{request_id}", "{rewrite_path}",
	"{rewrite_path_escaped}", "{query}", "{query_escaped}", "{fragment}", "{proto}", "{remote}", "{port}", "{uri}",
	"{uri_escaped}", "{rewrite_uri}", "{rewrite_uri_escaped}", "{file}", "{dir}", "{mitm}", "{status}", "{size}", "{server_port}",
	"{tls_client_serial}", "{tls_client_s_dn}", "{tls_client_fingerprint}", "{tls_client_v_remain}",
	// conditional keys, only generated where their condition is false (see c20Case)
	"{latency}", "{latency_ms}", "{tls_protocol}", "{tls_cipher}",
	// sigils
	"{>X-Inj}", "{>x-inj}", "{>Missing}", "{>}", "{>Cookie}", "{>X-Multi}", "{>Referer}", "{>User-Agent}",
	"{<Content-Type}", "{<x-resp}", "{<X-Inj}", "{<}", "{<Nope}",
	"{~sid}", "{~}", "{~nope}", "{~t}", "{~a}", "{~{b\\}}",
	"{?q}", "{?x}", "{?}", "{?missing}", "{?r}", "{?{}", "{?z}",
	"{$VERIF_C20_A}", "{$VERIF_C20_B}", "{$VERIF_C20_E}", "{$VERIF_C20_E=dflt{x}", "{$VERIF_C20_UNSET}", "{$VERIF_C20_UNSET=d=e}",
	"{$VERIF_C20_A=unused}", "{$=x}", "{$}",
	// labels
	"{label1}", "{label2}", "{label3}", "{label5}", "{label6}", "{label0}", "{label}", "{label+1}", "{label-1}", "{labelx}",
	"{label01}", "{label99999999999999999999}", "{label1x}", "{labe}",
	// custom, unknown, odd
	"{mykey}", "{nl}", "{foo}", "{}", "{ }", "{Method}", "{method }", "{>", "{status", "status}", `{\{}`, `{\}}`, `{a{b}c}`, `{>X-Inj\}}`,
	`\{method}`, `{method\}`, `\\{method}`, "{{method}}", "{when}x"[:0],
}

func c20Case(g *hx.Gen, format, empty string, r c20Req) {
	// a duration / a TLS name is outside the model: keep those keys to requests where the code
	// answers with the empty value instead (no recorder, no TLS)
	if (r.recorder != "-" && strings.Contains(format, "{latency")) ||
		(r.tls && (strings.Contains(format, "{tls_protocol}") || strings.Contains(format, "{tls_cipher}"))) {
		return
	}
	_, views, err := c20Request(r.raw, r.remote, r.rewrite, r.tls, r.reqid, r.mitm)
	if err != nil {
		return
	}
	f := []string{hx.HS(format), hx.HS(empty), hx.HS(r.raw), hx.HS(r.remote), r.rewrite, c20Pairs(r.sets), "0",
		r.reqid, r.mitm, r.recorder, r.resphdr, c20Pairs(c20Env)}
	if r.tls {
		f[6] = "1"
	}
	g.Case(append(f, views...)...)
}

func c20RandReq(g *hx.Gen) c20Req {
	inj := []string{"{status}", "{>X-Inj}", "{size}", "{method}", "{~sid}", "{?q}", "{uri}", "{host}", "{", "}", `\{`, `\}`, `\`, "a", "b c", "é", "{}", "{{", "}}", "%7B", "%7D", ""}
	txt := func(n int) string {
		var b strings.Builder
		for i := 0; i < n; i++ {
			b.WriteString(hx.Pick(g.Rng, inj))
		}
		return b.String()
	}
	hosts := []string{"www.example.com", "example.com:8080", "localhost", "[::1]:443", "a.b.c.d", "", "x..y", "10.0.0.7:80", "h:"}
	methods := []string{"GET", "POST", "HEAD", "PUT", "DELETE", "X{M}"}
	pathAtoms := []string{"/", "a", "b.txt", "{path}", "%7Bx%7D", "%20", "%0A", "%0D%0A", "dir/", `\{`, ".", "..", "//"}
	p := "/"
	for i, n := 0, g.Rng.Intn(4); i < n; i++ {
		p += hx.Pick(g.Rng, pathAtoms)
	}
	if g.Rng.Chance(2, 3) {
		p += "?"
		for i, n := 0, 1+g.Rng.Intn(3); i < n; i++ {
			if i > 0 {
				p += "&"
			}
			p += hx.Pick(g.Rng, []string{"q", "x", "r", "%7B", "", "q"}) + "=" + url.QueryEscape(txt(g.Rng.Intn(3)))
			if g.Rng.Chance(1, 6) {
				p += "{raw}"
			}
		}
	}
	hdr := []string{"Host", hx.Pick(g.Rng, hosts)}
	for _, name := range []string{"X-Inj", "Referer", "User-Agent", "X-Multi", "X-Multi", "x-lower", "Content-Type"} {
		if g.Rng.Bool() {
			hdr = append(hdr, name, strings.TrimSpace(txt(1+g.Rng.Intn(3))))
		}
	}
	if g.Rng.Chance(2, 3) {
		var cs []string
		for i, n := 0, 1+g.Rng.Intn(3); i < n; i++ {
			cs = append(cs, hx.Pick(g.Rng, []string{"sid", "t", "a", "{b}", "", "sid"})+"="+strings.ReplaceAll(txt(g.Rng.Intn(3)), " ", ""))
		}
		hdr = append(hdr, "Cookie", strings.Join(cs, "; "))
	}
	r := c20Req{raw: c20Raw(hx.Pick(g.Rng, methods), p, hx.Pick(g.Rng, []string{"HTTP/1.1", "HTTP/1.0"}), hdr...),
		remote:  hx.Pick(g.Rng, []string{"192.0.2.1:4000", "[2001:db8::1]:443", "nonsense", "", "1.2.3.4", "{remote}:9"}),
		rewrite: "-", reqid: "-", mitm: hx.Pick(g.Rng, []string{"-", "-", "0", "1"}), recorder: "-", tls: g.Rng.Chance(1, 4)}
	if g.Rng.Chance(1, 3) {
		r.rewrite = hx.HS("/rw/" + hx.Pick(g.Rng, pathAtoms) + "?q=" + url.QueryEscape(txt(1)))
	}
	if g.Rng.Chance(1, 3) {
		r.reqid = hx.HS(txt(1))
	}
	if g.Rng.Chance(2, 3) {
		r.recorder = fmt.Sprintf("%d:%d", hx.Pick(g.Rng, []int{200, 204, 301, 404, 500, 101, 999}), hx.Pick(g.Rng, []int{0, 1, 17, 4096}))
		h := http.Header{}
		for _, name := range []string{"Content-Type", "X-Resp", "X-Inj"} {
			if g.Rng.Bool() {
				for i, n := 0, 1+g.Rng.Intn(2); i < n; i++ {
					h[name] = append(h[name], txt(1+g.Rng.Intn(2)))
				}
			}
		}
		r.resphdr = c20Multi(h)
	}
	for i, n := 0, g.Rng.Intn(3); i < n && g.Rng.Chance(1, 2); i++ {
		r.sets = append(r.sets, [2]string{hx.Pick(g.Rng, []string{"mykey", "method", "status", ">X-Inj", "", "foo"}), txt(1+g.Rng.Intn(2)) + hx.Pick(g.Rng, []string{"", "", "\n", "\r\nforged"})})
	}
	return r
}

func c20ReplaceGen(g *hx.Gen) {
	reqs := c20Requests()
	empties := []string{"-", "", "{status}"}
	keys := c20Keys
	// 1. every atom alone, in front of / behind every literal, on every fixed request
	for ri, r := range reqs {
		for _, k := range keys {
			c20Case(g, k, empties[ri%len(empties)], r)
			for li, l := range c20Lits {
				if g.Thorough() || (li+ri)%3 == 0 {
					c20Case(g, l+k, "-", r)
					c20Case(g, k+l, "-", r)
				}
			}
		}
	}
	// 2. every byte string up to length n over the syntax alphabet (the scan itself, exhaustively)
	alpha := []byte{'{', '}', '\\', 'a', '>'}
	maxLen := 5
	if g.Thorough() {
		maxLen = 7
	}
	var rec func(prefix []byte)
	rec = func(prefix []byte) {
		c20Case(g, string(prefix), "-", reqs[len(prefix)%2])
		if len(prefix) == maxLen {
			return
		}
		for _, c := range alpha {
			rec(append(prefix[:len(prefix):len(prefix)], c))
		}
	}
	rec(nil)
	// 3. all pairs of atoms on the injection request
	for i, a := range keys {
		for j, b := range keys {
			if g.Thorough() || (i*7+j)%5 == 0 {
				c20Case(g, a+b, "-", reqs[0])
			}
		}
	}
	// 4. seeded random formats on seeded random requests
	N := 15000
	if g.Thorough() {
		N = 250000
	}
	for it := 0; it < N; it++ {
		var b strings.Builder
		for i, n := 0, 1+g.Rng.Intn(8); i < n; i++ {
			if g.Rng.Chance(2, 5) {
				b.WriteString(hx.Pick(g.Rng, c20Lits))
			} else {
				b.WriteString(hx.Pick(g.Rng, keys))
			}
		}
		var r c20Req
		if g.Rng.Chance(1, 4) {
			r = hx.Pick(g.Rng, reqs)
		} else {
			r = c20RandReq(g)
		}
		c20Case(g, b.String(), hx.Pick(g.Rng, empties), r)
	}
	// 5. malformed: random bytes biased towards syntax
	M := 8000
	if g.Thorough() {
		M = 100000
	}
	for it := 0; it < M; it++ {
		n := g.Rng.Intn(24)
		bs := make([]byte, n)
		for i := range bs {
			switch g.Rng.Intn(6) {
			case 0:
				bs[i] = '{'
			case 1:
				bs[i] = '}'
			case 2:
				bs[i] = '\\'
			case 3:
				bs[i] = "><~?$"[g.Rng.Intn(5)]
			case 4:
				bs[i] = byte(g.Rng.Intn(256))
				if bs[i] == '\t' || bs[i] == '\n' || bs[i] == '\r' {
					bs[i] = 'x'
				}
			default:
				bs[i] = "label1methodXInj"[g.Rng.Intn(16)]
			}
		}
		// keep the Kelvin sign / long s (non-ASCII case folding) out: the model folds ASCII only
		if bytes.Contains(bs, []byte("\xe2\x84\xaa")) || bytes.Contains(bs, []byte("\xc5\xbf")) {
			continue
		}
		c20Case(g, string(bs), "-", hx.Pick(g.Rng, reqs))
	}
}

func init() {
	hx.Register(&hx.Stream{ID: "C20", Name: "c20.replace", Gen: c20ReplaceGen, Eval: c20ReplaceEval})
}
