//go:build c19

package streams

import (
	"bytes"
	"context"
	"crypto/tls"
	"io"
	"net"
	"strconv"
	"strings"

	"github.com/tmpim/casket/caskethttp/httpserver"

	"verifharness/hx"
)

// c19.conns: SEVERAL connections through ONE real tlsHelloListener (its real Accept, hence the real
// bufpool Get/Put discipline) — aborted ones, complete ones, ones that stay open, interleaved ones.
// What is recorded for a connection must be the reading of the bytes THAT connection delivered
// (Lean: HelloSpec.connReading; model: Hello.Listener.run over a model of the pool).
//
//   case: one field per step
//           a<i>            Accept hands out connection i (remote address 198.51.100.<i>:4000<i>)
//           r<i>=<hex>      one Read of connection i (through its clientHelloConn) delivers the bytes
//           c<i>            connection i is closed (tls.Conn.Close, as net/http does after a failed handshake)
//           h<i>=<hex>,…    the bytes arrive in these deliveries while crypto/tls runs its (failing:
//                           no certificate) handshake on connection i — the real Read pattern of crypto/tls
//   out:  <recorded for connection 0> " | " <recorded for connection 1> …   ("-" = nothing), read
//         from helloInfos AFTER the last step, or PANIC:<class>
//
// The stream is Serial: all connections of a case are accepted, read and closed on one goroutine,
// nothing else uses bufpool meanwhile, so a buffer Put back is the one the next Get returns
// (sync.Pool's per-P private slot) — tag pool-reuse counts the cases where that really happened.

// queueListener hands out the queued connections in order.
type c19QueueListener struct{ queue []net.Conn }

func (l *c19QueueListener) Accept() (net.Conn, error) {
	if len(l.queue) == 0 {
		return nil, io.EOF
	}
	c := l.queue[0]
	l.queue = l.queue[1:]
	return c, nil
}
func (l *c19QueueListener) Close() error   { return nil }
func (l *c19QueueListener) Addr() net.Addr { return c19Addr("192.0.2.1:443") }

func c19ConnAddr(i int) string { return "198.51.100." + strconv.Itoa(i%250) + ":" + strconv.Itoa(40000+i) }

// c19TLSReadsAll: crypto/tls reads such a first flight to its end (or to the end of the first
// record): the header, once there, announces a handshake record of a plausible version and size.
func c19TLSReadsAll(stream []byte) bool {
	if len(stream) < 5 {
		return true
	}
	n := int(stream[3])<<8 | int(stream[4])
	return stream[0] == 22 && stream[1] < 0x10 && n <= 16384
}

type c19ConnState struct {
	tc     *tls.Conn
	raw    *c19Conn
	closed bool
	read   bool
}

func c19ConnsEval(f []string) (string, []string) {
	var tags []string
	out := c19Guard(func() string {
		ql := &c19QueueListener{}
		ln, v := httpserver.VerifTLSHelloListener(ql, &tls.Config{})
		conns := map[int]*c19ConnState{}
		var order []int
		var bufs []*bytes.Buffer
		reuse, aborted, abortedThenHello := false, false, false
		rbuf := make([]byte, 70000)
		maxID := -1
		for _, step := range f {
			if step == "" {
				continue
			}
			arg := ""
			idStr := step[1:]
			if k := strings.IndexByte(step, '='); k >= 0 {
				idStr, arg = step[1:k], step[k+1:]
			}
			id, err := strconv.Atoi(idStr)
			if err != nil {
				return "bad-case"
			}
			st := conns[id]
			switch step[0] {
			case 'a':
				if id > maxID {
					maxID = id
				}
				if st != nil {
					continue
				}
				raw := &c19Conn{addr: c19ConnAddr(id)}
				ql.queue = append(ql.queue, raw)
				c, err := ln.Accept()
				if err != nil {
					return "err:accept:" + err.Error()
				}
				b := httpserver.VerifHelloBuf(c)
				for _, old := range bufs {
					if old == b {
						reuse = true
					}
				}
				bufs = append(bufs, b)
				conns[id] = &c19ConnState{tc: c.(*tls.Conn), raw: raw}
				order = append(order, id)
			case 'r':
				if st == nil || st.closed {
					continue
				}
				st.raw.segs = append(st.raw.segs, hx.UnH(arg))
				st.read = true
				st.tc.NetConn().Read(rbuf)
			case 'h':
				if st == nil || st.closed {
					continue
				}
				var segs [][]byte
				var all []byte
				for _, h := range strings.Split(arg, ",") {
					segs = append(segs, hx.UnH(h))
					all = append(all, hx.UnH(h)...)
				}
				if !st.read && c19TLSReadsAll(all) {
					st.raw.segs = append(st.raw.segs, segs...)
					st.read = true
					st.tc.HandshakeContext(context.Background()) // fails: EOF or no certificate
					tags = append(tags, "tls-handshake")
				} else {
					// crypto/tls would stop reading such bytes early; deliver them Read by Read
					for _, s := range segs {
						st.raw.segs = append(st.raw.segs, s)
						st.tc.NetConn().Read(rbuf)
					}
					st.read = true
				}
			case 'c':
				if st == nil || st.closed {
					continue
				}
				st.closed = true
				if _, ok := v.Recorded(c19ConnAddr(id)); !ok {
					aborted = true
				}
				st.tc.Close()
			default:
				return "bad-case"
			}
		}
		recs := make([]string, maxID+1)
		for i := range recs {
			recs[i] = "-"
			if info, ok := v.Recorded(c19ConnAddr(i)); ok {
				recs[i] = c19ShowInfo(info)
				if aborted {
					abortedThenHello = true
				}
			}
		}
		tags = append(tags, "conns="+strconv.Itoa(min(len(order), 5)))
		if reuse {
			tags = append(tags, "pool-reuse")
		}
		if abortedThenHello {
			tags = append(tags, "aborted-and-recorded")
		}
		if len(order) < 2 {
			tags = append(tags, "trivial-one-connection")
		}
		return strings.Join(recs, " | ")
	})
	return out, c19Tags(out, tags...)
}

// c19ConnSteps: connection id delivering stream in the given pieces, sequentially.
func c19ReadSteps(id int, segs [][]byte) []string {
	var s []string
	for _, seg := range segs {
		s = append(s, "r"+strconv.Itoa(id)+"="+hx.H(seg))
	}
	return s
}

func c19HandshakeStep(id int, segs [][]byte) string {
	hs := make([]string, len(segs))
	for i, seg := range segs {
		hs[i] = hx.H(seg)
	}
	return "h" + strconv.Itoa(id) + "=" + strings.Join(hs, ",")
}

func c19ConnsGen(g *hx.Gen) {
	r := g.Rng
	// complete records: captured browser hellos, a profile, a tiny one (3-byte message)
	var records [][]byte
	nc := 2
	if g.Thorough() {
		nc = len(c19Captured)
	}
	for _, hs := range c19Captured[:nc] {
		records = append(records, c19Record(hx.UnH(hs)))
	}
	records = append(records, c19Record(c19Profile("chrome", nil).message(r)))
	records = append(records, []byte{22, 3, 1, 0, 3, 1, 0, 0})

	id := func(i int) string { return strconv.Itoa(i) }
	seq := func(parts ...[]string) {
		var all []string
		for _, p := range parts {
			all = append(all, p...)
		}
		g.Case(all...)
	}
	// how the complete hello of the later connection arrives
	deliveries := func(b []byte) [][][]byte {
		return [][][]byte{
			c19Cut(b, nil),
			c19Cut(b, []int{5}),
			c19Cut(b, []int{3}),
			c19Cut(b, []int{5, len(b) / 2}),
			c19Cut(b, []int{1, 2, 3, 4, 5, 6}),
		}
	}
	// what a peer that goes away has sent: k bytes of a record, k = 1 … len-1
	partials := func(a []byte, headers bool) [][]byte {
		var ps [][]byte
		for k := 1; k < len(a); k++ {
			if k <= 12 || k%17 == 0 || k == len(a)-1 {
				ps = append(ps, a[:k])
			}
		}
		if !headers {
			return ps
		}
		// a whole header that announces a short / long message, nothing or little behind it
		for _, n := range []int{0, 1, 40, 48, 200, 512, 65535} {
			ps = append(ps, []byte{22, 3, 1, byte(n >> 8), byte(n)})
			if n > 2 {
				ps = append(ps, []byte{22, 3, 1, byte(n >> 8), byte(n), 1, 0})
			}
		}
		return ps
	}

	// 1. [partial hello of length k, close] x [complete hello, several segmentations]
	for ai, a := range records {
		for bi, b := range records {
			if !g.Thorough() && ai != bi && ai+bi != len(records)-1 && bi != 0 {
				continue
			}
			for _, p := range partials(a, ai == 0) {
				for di, d := range deliveries(b) {
					if !g.Thorough() && di > 1 && len(p) > 6 && len(p)%3 != 0 {
						continue
					}
					seq([]string{"a0"}, c19ReadSteps(0, [][]byte{p}), []string{"c0", "a1"}, c19ReadSteps(1, d), []string{"c1"})
				}
			}
		}
	}
	// 2. partial + partial + complete; the partials in one or two reads; crypto/tls doing the reading
	for _, a := range records {
		for _, b := range records[:2] {
			for _, k := range []int{1, 3, 5, 6, 9, len(a) / 2, len(a) - 1} {
				if k >= len(a) {
					continue
				}
				p, q := a[:k], b[:min(len(b)-1, 7)]
				seq([]string{"a0"}, c19ReadSteps(0, [][]byte{p}), []string{"c0", "a1"}, c19ReadSteps(1, [][]byte{q}), []string{"c1", "a2"},
					c19ReadSteps(2, c19Cut(b, []int{5})), []string{"c2"})
				seq([]string{"a0"}, c19ReadSteps(0, c19Cut(p, []int{k / 2})), []string{"c0", "a1"}, c19ReadSteps(1, c19Cut(b, nil)), []string{"c1", "a2"},
					c19ReadSteps(2, c19Cut(a, []int{5, 100})), []string{"c2"})
				seq([]string{"a0", c19HandshakeStep(0, [][]byte{p}), "c0", "a1", c19HandshakeStep(1, c19Cut(b, []int{5, 100})), "c1"})
				seq([]string{"a0", c19HandshakeStep(0, [][]byte{p}), "c0", "a1", c19HandshakeStep(1, [][]byte{q}), "c1", "a2", c19HandshakeStep(2, c19Cut(b, nil)), "c2"})
			}
		}
	}
	// 3. complete (with traffic behind the hello) then complete; the first stays open or is closed;
	//    the aborted one stays open; two connections open at the same time, reads interleaved
	for _, a := range records {
		for _, b := range records {
			more := append(append([]byte(nil), a...), 20, 3, 3, 0, 1, 1, 22, 3, 3, 0, 2, 9, 9)
			seq([]string{"a0"}, c19ReadSteps(0, c19Cut(more, nil)), []string{"a1"}, c19ReadSteps(1, c19Cut(b, []int{5})), []string{"c1", "c0"})
			seq([]string{"a0"}, c19ReadSteps(0, c19Cut(more, []int{7})), []string{"c0", "a1"}, c19ReadSteps(1, c19Cut(b, nil)), []string{"c1"})
			seq([]string{"a0", c19HandshakeStep(0, c19Cut(a, []int{5})), "c0", "a1", c19HandshakeStep(1, c19Cut(b, []int{9})), "c1"})
			seq([]string{"a0"}, c19ReadSteps(0, [][]byte{a[:min(len(a)-1, 4)]}), []string{"a1"}, c19ReadSteps(1, c19Cut(b, nil)), []string{"c1", "c0"})
			sa, sb := c19Cut(a, []int{3, 5}), c19Cut(b, []int{4, 6})
			seq([]string{"a0", "a1", "r0=" + hx.H(sa[0]), "r1=" + hx.H(sb[0]), "r0=" + hx.H(sa[1]), "r1=" + hx.H(sb[1]), "r1=" + hx.H(sb[2]), "r0=" + hx.H(sa[2]), "c0", "c1"})
			seq([]string{"a0", "a1", "r0=" + hx.H(sa[0]), "r1=" + hx.H(sb[0]), "c0", "r1=" + hx.H(sb[1]), "a2", "r1=" + hx.H(sb[2]), "r2=" + hx.H(a), "c2", "c1"})
		}
	}
	// 4. random schedules: 2..5 connections, each complete / cut short / wrong length / random bytes,
	//    random cuts, sequential or interleaved, closed or left open
	n := 500
	if g.Thorough() {
		n = 60000
	}
	for i := 0; i < n; i++ {
		k := 2 + r.Intn(4)
		pending := make([][]string, k) // steps of each connection, in its own order
		for c := 0; c < k; c++ {
			var msg []byte
			if r.Chance(1, 3) {
				msg = hx.UnH(hx.Pick(r, c19Captured))
			} else {
				msg = c19RandomHello(r).message(r)
			}
			s := c19Record(msg)
			switch r.Intn(8) {
			case 0, 1, 2: // goes away before the hello is complete
				s = s[:r.Intn(len(s))]
			case 3: // only the first bytes
				s = s[:r.Intn(min(len(s), 9))]
			case 4: // record length says more than there is
				l := len(msg) + 1 + r.Intn(300)
				s[3], s[4] = byte(l>>8), byte(l)
			case 5: // record length says less, traffic behind
				l := r.Intn(len(msg) + 1)
				s[3], s[4] = byte(l>>8), byte(l)
			case 6: // random small bytes
				s = make([]byte, r.Intn(14))
				for j := range s {
					s[j] = byte(r.Intn(4))
				}
			}
			var cuts []int
			if r.Chance(2, 3) {
				cuts = c19RandomCuts(r, len(s))
			}
			steps := []string{"a" + id(c)}
			if r.Chance(1, 4) && c19TLSReadsAll(s) {
				steps = append(steps, c19HandshakeStep(c, c19Cut(s, cuts)))
			} else {
				steps = append(steps, c19ReadSteps(c, c19Cut(s, cuts))...)
			}
			if r.Chance(5, 6) {
				steps = append(steps, "c"+id(c))
			}
			pending[c] = steps
		}
		var all []string
		if r.Chance(2, 3) { // one connection after the other
			for _, p := range pending {
				all = append(all, p...)
			}
		} else { // interleaved; accepts stay in order of the ids
			for {
				var live []int
				for c, p := range pending {
					if len(p) > 0 && (c == 0 || len(pending[c-1]) == 0 || pending[c-1][0][0] != 'a') {
						live = append(live, c)
					}
				}
				if len(live) == 0 {
					break
				}
				c := hx.Pick(r, live)
				all = append(all, pending[c][0])
				pending[c] = pending[c][1:]
			}
		}
		g.Case(all...)
	}
}

func init() {
	hx.Register(&hx.Stream{ID: "C19", Name: "c19.conns", Serial: true, Gen: c19ConnsGen, Eval: c19ConnsEval})
}
