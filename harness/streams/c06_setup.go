//go:build c06

package streams

import (
	"crypto/tls"
	"fmt"
	"os"
	"strconv"
	"strings"
	"syscall"

	"github.com/klauspost/cpuid"
	"github.com/tmpim/casket"
	"github.com/tmpim/casket/caskethttp/httpserver"
	"github.com/tmpim/casket/caskettls"

	"verifharness/hx"
)

// c06.setup     aesni  block  [addrhex]   the real setupTLS on   <addr> { tls self_signed { <block> } }
//   addr  = the site address as written (default a.test:8443); the settings do not depend on it
//   block = ';' list of lines <namehex>|<arghex>,<arghex>,…
//   out   = err:<class> | min TAB max TAB ciphers TAB curves TAB prefer TAB clientAuth TAB clientCerts TAB alpn TAB disableSNI
//
// c06.listener  aesni  block  block2  [w1hex  w2hex  other]   the same Casketfile (block2 != "-": plus a second site
//   a.test:8443/admin with `tls self_signed { block2 }`, sharing the host name; other != "-": plus a site b.test:8443
//   with `tls self_signed { other }`) through the loader front end AND MakeServers/NewServer
//   w1 / w2 = the addresses of the first two sites AS WRITTEN (they mean a.test:8443 and a.test:8443/admin)
//   (the listener's tls.Config as casket builds it), then a REAL handshake over net.Pipe with
//   server name a.test, versions TLS 1.0..1.3 offered, the certificate being the self-signed one
//   setupTLS generated:   out = err | fail | ok TAB version TAB sanhex TAB requested
//
// Loader entry points: the C15 overlay files (shared).

var c06SetupStderr = -1

func c06SetupSetup() error {
	if err := c06Setup(); err != nil {
		return err
	}
	casket.Quiet = true
	if os.Getenv("VERIF_TRACE") == "" && c06SetupStderr < 0 {
		if null, err := os.OpenFile(os.DevNull, os.O_WRONLY, 0); err == nil {
			if saved, err := syscall.Dup(2); err == nil {
				if syscall.Dup3(int(null.Fd()), 2, 0) == nil {
					c06SetupStderr = saved
				} else {
					syscall.Close(saved)
				}
			}
			null.Close()
		}
	}
	if c06ClientCrt == nil {
		crt, err := caskettls.VerifSelfSigned([]string{"client.invalid"})
		if err != nil {
			return err
		}
		c06ClientCrt = &crt
	}
	return nil
}

func c06SetupTeardown() {
	if c06SetupStderr >= 0 {
		syscall.Dup3(c06SetupStderr, 2, 0)
		syscall.Close(c06SetupStderr)
		c06SetupStderr = -1
	}
	c06Teardown()
}

type c06Line struct {
	name string
	args []string
}

func c06ParseBlock(s string) []c06Line {
	if s == "" {
		return nil
	}
	var out []c06Line
	for _, l := range strings.Split(s, ";") {
		p := strings.SplitN(l, "|", 2)
		ln := c06Line{name: hx.UnHS(p[0])}
		if len(p) > 1 && p[1] != "" {
			for _, a := range strings.Split(p[1], ",") {
				ln.args = append(ln.args, hx.UnHS(a))
			}
		}
		out = append(out, ln)
	}
	return out
}

func c06EncBlock(ls []c06Line) string {
	parts := make([]string, len(ls))
	for i, l := range ls {
		as := make([]string, len(l.args))
		for j, a := range l.args {
			as[j] = hx.HS(a)
		}
		parts[i] = hx.HS(l.name) + "|" + strings.Join(as, ",")
	}
	return strings.Join(parts, ";")
}

// c06Load runs the loader front end on the one-site Casketfile and returns the site's config.
func c06Load(block []c06Line, second ...[]c06Line) (*casket.Instance, casket.Context, *httpserver.SiteConfig, string) {
	addrs := []string{"a.test:8443"}
	blocks := [][]c06Line{block}
	for _, blk := range second {
		addrs = append(addrs, "a.test:8443/admin")
		blocks = append(blocks, blk)
	}
	return c06LoadAddrs(addrs, blocks)
}

// c06LoadAddrs: one site per address (as written), each with `tls self_signed { block }`
func c06LoadAddrs(addrs []string, blocks [][]c06Line) (*casket.Instance, casket.Context, *httpserver.SiteConfig, string) {
	var b strings.Builder
	site := func(addr string, block []c06Line) {
		b.WriteString(addr + " {\n  tls self_signed {\n")
		for _, l := range block {
			b.WriteString("    " + l.name)
			for _, a := range l.args {
				b.WriteString(" " + a)
			}
			b.WriteString("\n")
		}
		b.WriteString("  }\n}\n")
	}
	for i, a := range addrs {
		site(a, blocks[i])
	}
	inst, ctx, err := casket.VerifC15Load(casket.CasketfileInput{Filepath: "Testfile", Contents: []byte(b.String()), ServerTypeName: "http"})
	if err != nil {
		m := err.Error()
		cls := "other:" + strings.SplitN(m, "\n", 2)[0]
		switch {
		case strings.Contains(m, "Wrong argument count"):
			cls = "argcount"
		case strings.Contains(m, "Wrong protocol name"):
			cls = "badprotocol"
		case strings.Contains(m, "Wrong cipher name"):
			cls = "badcipher"
		case strings.Contains(m, "Wrong curve name"):
			cls = "badcurve"
		case strings.Contains(m, "Minimum protocol version"):
			cls = "mingtmax"
		case strings.Contains(m, "Unknown subdirective"):
			cls = "unknown"
		}
		return inst, ctx, nil, "err:" + cls
	}
	cfgs := httpserver.VerifC15Configs(ctx)
	if len(cfgs) != len(addrs) {
		return inst, ctx, nil, fmt.Sprintf("config-count:%d", len(cfgs))
	}
	return inst, ctx, cfgs[0], ""
}

// c06AddrTokenOK: a site address the streams write into a Casketfile (no blanks, braces, quotes, commas)
func c06AddrTokenOK(s string) bool {
	if s == "" {
		return false
	}
	for i := 0; i < len(s); i++ {
		c := s[i]
		if !(c >= 'a' && c <= 'z' || c >= 'A' && c <= 'Z' || c >= '0' && c <= '9' || strings.IndexByte("._-/:*[]", c) >= 0) {
			return false
		}
	}
	return true
}

func c06BlockTokensOK(block []c06Line) bool {
	ok := func(s string) bool {
		if s == "" {
			return false
		}
		for i := 0; i < len(s); i++ {
			c := s[i]
			if !(c >= 'a' && c <= 'z' || c >= 'A' && c <= 'Z' || c >= '0' && c <= '9' || strings.IndexByte("._-/", c) >= 0) {
				return false
			}
		}
		return true
	}
	for _, l := range block {
		if !ok(l.name) {
			return false
		}
		for _, a := range l.args {
			if !ok(a) {
				return false
			}
		}
	}
	return true
}

func c06SetupEval(f []string) (string, []string) {
	if len(f) != 2 && len(f) != 3 {
		return "bad-case", nil
	}
	if (f[0] == "1") != cpuid.CPU.AesNi() {
		return "bad-case:aesni field does not describe this CPU", nil
	}
	block := c06ParseBlock(f[1])
	if !c06BlockTokensOK(block) {
		return "bad-case:token", nil
	}
	addr := "a.test:8443"
	if len(f) == 3 {
		addr = hx.UnHS(f[2])
		if !c06AddrTokenOK(addr) {
			return "bad-case:token", nil
		}
	}
	inst, _, sc, e := c06LoadAddrs([]string{addr}, [][]c06Line{block})
	defer inst.ShutdownCallbacks()
	tags := []string{fmt.Sprintf("lines=%d", len(block))}
	if addr != "a.test:8443" {
		tags = append(tags, "address-spelled")
	}
	for _, l := range block {
		tags = append(tags, "has-"+l.name)
	}
	if e != "" {
		return e, append(tags, "rejected")
	}
	t := sc.TLS
	if !t.Enabled || !t.SelfSigned {
		return "not-enabled", tags
	}
	hexes := func(xs []string) string {
		h := make([]string, len(xs))
		for i, x := range xs {
			h[i] = hx.HS(x)
		}
		return strings.Join(h, ",")
	}
	// the ALPN default of the http server type (h2, http/1.1) is applied later, in NewServer; not here
	return strings.Join([]string{strconv.Itoa(int(t.ProtocolMinVersion)), strconv.Itoa(int(t.ProtocolMaxVersion)), c06U16s(t.Ciphers),
		c06U16s(t.CurvePreferences), b01(t.PreferServerCipherSuites), strconv.Itoa(int(t.ClientAuth)), hexes(t.ClientCerts),
		hexes(t.ALPN), b01(t.InsecureDisableSNIMatching)}, "\t"), append(tags, "accepted")
}

func c06ListenerEval(f []string) (string, []string) {
	if len(f) != 3 && len(f) != 6 {
		return "bad-case", nil
	}
	if (f[0] == "1") != cpuid.CPU.AesNi() {
		return "bad-case:aesni field does not describe this CPU", nil
	}
	block := c06ParseBlock(f[1])
	if !c06BlockTokensOK(block) {
		return "bad-case:token", nil
	}
	addrs, blocks := []string{"a.test:8443"}, [][]c06Line{block}
	if len(f) == 6 {
		addrs[0] = hx.UnHS(f[3])
	}
	if f[2] != "-" {
		b2 := c06ParseBlock(f[2])
		if !c06BlockTokensOK(b2) {
			return "bad-case:token", nil
		}
		a2 := "a.test:8443/admin"
		if len(f) == 6 {
			a2 = hx.UnHS(f[4])
		}
		addrs, blocks = append(addrs, a2), append(blocks, b2)
	}
	if len(f) == 6 && f[5] != "-" {
		b3 := c06ParseBlock(f[5])
		if !c06BlockTokensOK(b3) {
			return "bad-case:token", nil
		}
		addrs, blocks = append(addrs, "b.test:8443"), append(blocks, b3)
	}
	tags := []string{fmt.Sprintf("lines=%d", len(block)), fmt.Sprintf("sites=%d", len(addrs))}
	for i, a := range addrs {
		if !c06AddrTokenOK(a) {
			return "bad-case:token", nil
		}
		// the written addresses must mean a.test:8443 and a.test:8443/admin
		want := []string{"a.test /", "a.test /admin", "b.test /"}[i]
		if len(addrs) == 2 && i == 1 && f[2] == "-" {
			want = "b.test /"
		}
		if c06TrieKey(a) != want {
			return "bad-case:address-meaning", nil
		}
		if a != strings.ToLower(a) {
			tags = append(tags, "host-written-with-capitals")
		}
	}
	inst, ctx, sc, e := c06LoadAddrs(addrs, blocks)
	defer inst.ShutdownCallbacks()
	if e != "" {
		return "err", append(tags, "trivial-rejected")
	}
	_ = sc
	servers, err := httpserver.VerifC15MakeServers(ctx)
	if err != nil || len(servers) != 1 {
		return "err", append(tags, "trivial-makeservers-error")
	}
	srv, ok := servers[0].(*httpserver.Server)
	if !ok || srv.Server.TLSConfig == nil {
		return "no-tls-listener", tags
	}
	cconn, sconn := c06MemPipe()
	defer cconn.Close()
	defer sconn.Close()
	server := tls.Server(sconn, srv.Server.TLSConfig)
	serr := make(chan error, 1)
	go func() {
		err := server.Handshake()
		if err != nil {
			sconn.Close()
		}
		serr <- err
	}()
	requested := false
	client := tls.Client(cconn, &tls.Config{ServerName: "a.test", InsecureSkipVerify: true, MinVersion: tls.VersionTLS10, MaxVersion: tls.VersionTLS13,
		GetClientCertificate: func(*tls.CertificateRequestInfo) (*tls.Certificate, error) {
			requested = true
			return c06ClientCrt, nil
		}})
	cerr := client.Handshake()
	if cerr != nil {
		cconn.Close()
	}
	if e := <-serr; e != nil || cerr != nil {
		return "fail", append(tags, "handshake-failed")
	}
	st := client.ConnectionState()
	san := "?"
	if len(st.PeerCertificates) > 0 && len(st.PeerCertificates[0].DNSNames) > 0 {
		san = st.PeerCertificates[0].DNSNames[0]
	}
	tags = append(tags, fmt.Sprintf("negotiated=%x", st.Version))
	if requested {
		tags = append(tags, "client-cert-requested")
	}
	return "ok\t" + strconv.Itoa(int(st.Version)) + "\t" + hx.HS(san) + "\t" + b01(requested), tags
}

var c06ProtoNames = []string{"tls1.0", "tls1.1", "tls1.2", "tls1.3", "TLS1.2", "Tls1.3"}
var c06CipherNames = []string{"ECDHE-ECDSA-AES256-GCM-SHA384", "ECDHE-RSA-AES256-GCM-SHA384", "ECDHE-ECDSA-AES128-GCM-SHA256",
	"ECDHE-RSA-AES128-GCM-SHA256", "ECDHE-ECDSA-WITH-CHACHA20-POLY1305", "ECDHE-RSA-WITH-CHACHA20-POLY1305", "ECDHE-RSA-AES256-CBC-SHA",
	"ECDHE-RSA-AES128-CBC-SHA", "ECDHE-ECDSA-AES256-CBC-SHA", "ECDHE-ECDSA-AES128-CBC-SHA", "RSA-AES256-CBC-SHA", "RSA-AES128-CBC-SHA",
	"ECDHE-RSA-3DES-EDE-CBC-SHA", "RSA-3DES-EDE-CBC-SHA", "ecdhe-ecdsa-aes128-gcm-sha256"}
var c06CurveNames = []string{"X25519", "P256", "P384", "P521", "x25519", "p256"}

func c06SetupGen(g *hx.Gen) {
	aes := b01(cpuid.CPU.AesNi())
	emit := func(ls ...c06Line) { g.Case(aes, c06EncBlock(ls)) }
	L := func(name string, args ...string) c06Line { return c06Line{name, args} }
	emit()
	// protocols: every 0..3 argument combination incl. unknown names
	names := append(append([]string{}, c06ProtoNames...), "ssl3", "tls1.4")
	emit(L("protocols"))
	for _, a := range names {
		emit(L("protocols", a))
		for _, b := range names {
			emit(L("protocols", a, b))
			emit(L("protocols", a, b, "tls1.0"))
			emit(L("protocols", "tls1.2"), L("protocols", a, b))
		}
	}
	// clients: every mode word x 0..2 further arguments
	for _, m := range []string{"request", "require", "verify_if_given", "ca0.pem", "REQUEST", "verify-if-given"} {
		emit(L("clients", m))
		emit(L("clients", m, "ca1.pem"))
		emit(L("clients", m, "ca1.pem", "ca2.pem"))
		emit(L("clients", "require"), L("clients", m, "ca1.pem"))
	}
	emit(L("clients"))
	// ciphers, curves, alpn, the switch
	for _, c := range append(append([]string{}, c06CipherNames...), "RC4-SHA", "TLS_FALLBACK_SCSV") {
		emit(L("ciphers", c))
		emit(L("ciphers", c, c06CipherNames[0]), L("ciphers", c06CipherNames[3]))
	}
	emit(L("ciphers"))
	for _, c := range append(append([]string{}, c06CurveNames...), "P224", "secp256r1") {
		emit(L("curves", c))
		emit(L("curves", c, "P384", c))
	}
	emit(L("curves"))
	emit(L("alpn"))
	emit(L("alpn", "h2"))
	emit(L("alpn", "http/1.1", "acme-tls/1"), L("alpn", "h2"))
	emit(L("insecure_disable_sni_matching"))
	emit(L("insecure_disable_sni_matching", "alpn", "h2"))
	emit(L("insecure_disable_sni_matching", "extra"))
	emit(L("insecure_disable_sni_matching", "insecure_disable_sni_matching", "protocols", "tls1.3"))
	emit(L("must_staple"))
	emit(L("bogus", "x"))
	// the site address as written: letter case, scheme, trailing dot, a path, an IP literal — the block lands on the
	// site's own config whatever the spelling (setupTLS finds the config by the normalised key)
	for _, a := range c06SetupAddrs {
		g.Case(aes, c06EncBlock(nil), hx.HS(a))
		g.Case(aes, c06EncBlock([]c06Line{L("protocols", "tls1.1", "TLS1.3"), L("clients", "require"), L("alpn", "h2")}), hx.HS(a))
		g.Case(aes, c06EncBlock([]c06Line{L("clients", "verify_if_given", "ca1.pem"), L("ciphers", c06CipherNames[2]), L("insecure_disable_sni_matching")}), hx.HS(a))
		g.Case(aes, c06EncBlock([]c06Line{L("protocols", "tls1.3", "tls1.2")}), hx.HS(a))
	}
	// seeded random blocks of 0..5 lines
	N := 2500
	if g.Thorough() {
		N = 60000
	}
	pick := func(xs []string, bad string) string {
		if g.Rng.Chance(1, 15) {
			return bad
		}
		return hx.Pick(g.Rng, xs)
	}
	for it := 0; it < N; it++ {
		n := g.Rng.Intn(6)
		ls := make([]c06Line, n)
		for i := range ls {
			switch g.Rng.Intn(7) {
			case 0:
				k := 1 + g.Rng.Intn(2)
				if g.Rng.Chance(1, 12) {
					k = g.Rng.Intn(4)
				}
				as := make([]string, k)
				for j := range as {
					as[j] = pick(c06ProtoNames, "tls9")
				}
				if k == 2 && g.Rng.Chance(3, 4) && as[0] > as[1] {
					as[0], as[1] = as[1], as[0]
				}
				ls[i] = L("protocols", as...)
			case 1:
				as := make([]string, g.Rng.Intn(4))
				for j := range as {
					as[j] = pick(c06CipherNames, "NULL-SHA")
				}
				ls[i] = L("ciphers", as...)
			case 2:
				as := make([]string, g.Rng.Intn(3))
				for j := range as {
					as[j] = pick(c06CurveNames, "P192")
				}
				ls[i] = L("curves", as...)
			case 3:
				as := []string{hx.Pick(g.Rng, []string{"request", "require", "verify_if_given", "ca0.pem", "ca3.pem"})}
				for j := g.Rng.Intn(3); j > 0; j-- {
					as = append(as, hx.Pick(g.Rng, []string{"ca0.pem", "ca1.pem", "require"}))
				}
				if g.Rng.Chance(1, 15) {
					as = nil
				}
				ls[i] = L("clients", as...)
			case 4:
				as := make([]string, g.Rng.Intn(3))
				for j := range as {
					as[j] = hx.Pick(g.Rng, []string{"h2", "http/1.1", "acme-tls/1", "spdy/3"})
				}
				ls[i] = L("alpn", as...)
			case 5:
				ls[i] = L("insecure_disable_sni_matching")
				if g.Rng.Chance(1, 8) {
					ls[i].args = []string{hx.Pick(g.Rng, []string{"alpn", "protocols", "x"}), "tls1.2"}
				}
			default:
				ls[i] = L(hx.Pick(g.Rng, []string{"must_staple", "no_redirect", "bogus", "protocol"}))
			}
		}
		if it%4 == 0 {
			g.Case(aes, c06EncBlock(ls), hx.HS(hx.Pick(g.Rng, c06SetupAddrs)))
		} else {
			emit(ls...)
		}
	}
}

var c06SetupAddrs = []string{"A.test:8443", "A.TEST:8443", "a.Test:8443", "https://a.test:8443", "HTTPS://A.Test:8443", "a.test.:8443",
	"A.test", "https://A.Test", "a.test:https", "A.test:8443/Admin", "[::1]:8443", "[0::1]:8443", "*.A.test:8443"}

func c06ListenerGen(g *hx.Gen) {
	aes := b01(cpuid.CPU.AesNi())
	emit := func(ls ...c06Line) { g.Case(aes, c06EncBlock(ls), "-") }
	L := func(name string, args ...string) c06Line { return c06Line{name, args} }
	emit()
	// two sites on one host name (a.test and a.test/admin): their tls blocks must agree; every ordered pair
	// of the client modes that need no CA file (none, request, require) and every other single-field difference
	blocks := [][]c06Line{nil, {L("clients", "request")}, {L("clients", "require")}, {L("protocols", "tls1.2")},
		{L("protocols", "tls1.2", "tls1.3")}, {L("protocols", "tls1.3")}, {L("ciphers", "ECDHE-ECDSA-AES128-GCM-SHA256")},
		{L("curves", "P256")}, {L("curves", "X25519", "P256")}, {L("alpn", "h2")}, {L("insecure_disable_sni_matching")}}
	for _, b1 := range blocks {
		for _, b2 := range blocks {
			g.Case(aes, c06EncBlock(b1), c06EncBlock(b2)) // "" = a second site with an empty block; "-" = no second site
		}
	}
	// the addresses as written (they mean a.test:8443 and a.test:8443/admin), alone, beside each other and beside a
	// site of another host name (b.test:8443) whose settings must not govern a handshake under a.test
	w1s := []string{"a.test:8443", "A.test:8443", "A.TEST:8443", "a.tEsT:8443", "https://a.test:8443", "HTTPS://A.Test:8443"}
	w2s := []string{"a.test:8443/admin", "A.Test:8443/admin", "https://A.TEST:8443/admin"}
	mine := [][]c06Line{nil, {L("clients", "require")}, {L("clients", "request"), L("protocols", "tls1.3")}, {L("protocols", "tls1.2")},
		{L("protocols", "tls1.0", "tls1.1"), L("ciphers", "ECDHE-ECDSA-AES256-CBC-SHA")}}
	others := [][]c06Line{nil, {L("clients", "require")}, {L("protocols", "tls1.3")}, {L("protocols", "tls1.0", "tls1.2"), L("clients", "request")}}
	for wi, w1 := range w1s {
		for mi, m := range mine {
			for oi, o := range others {
				g.Case(aes, c06EncBlock(m), "-", hx.HS(w1), hx.HS(w2s[0]), c06EncBlock(o))
				if (wi+mi+oi)%3 == 0 {
					g.Case(aes, c06EncBlock(m), c06EncBlock(m), hx.HS(w1), hx.HS(w2s[(wi+oi)%len(w2s)]), c06EncBlock(o))
				}
			}
			g.Case(aes, c06EncBlock(m), "-", hx.HS(w1), hx.HS(w2s[0]), "-")
			g.Case(aes, c06EncBlock(m), c06EncBlock(mine[(mi+1)%len(mine)]), hx.HS(w1), hx.HS(w2s[(wi+mi)%len(w2s)]), "-")
		}
	}
	protos := [][]string{nil, {"tls1.2"}, {"tls1.3"}, {"tls1.0", "tls1.1"}, {"tls1.0", "tls1.3"}, {"tls1.1", "tls1.2"}, {"tls1.0"}}
	ciphers := [][]string{nil, {"ECDHE-ECDSA-AES128-GCM-SHA256"}, {"ECDHE-RSA-AES128-GCM-SHA256"}, {"ECDHE-ECDSA-AES256-CBC-SHA"},
		{"ECDHE-RSA-AES256-GCM-SHA384", "ECDHE-ECDSA-AES128-CBC-SHA"}, {"RSA-AES128-CBC-SHA"}}
	clients := [][]string{nil, {"request"}, {"require"}}
	for _, p := range protos {
		for _, c := range ciphers {
			for _, cl := range clients {
				var ls []c06Line
				if p != nil {
					ls = append(ls, L("protocols", p...))
				}
				if c != nil {
					ls = append(ls, L("ciphers", c...))
				}
				if cl != nil {
					ls = append(ls, L("clients", cl...))
				}
				emit(ls...)
				emit(append(ls, L("curves", "P256"), L("alpn", "h2", "http/1.1"))...)
			}
		}
	}
}

func init() {
	hx.Register(&hx.Stream{ID: "C06", Name: "c06.setup", Gen: c06SetupGen, Eval: c06SetupEval, Setup: c06SetupSetup, Teardown: c06SetupTeardown})
	hx.Register(&hx.Stream{ID: "C06", Name: "c06.listener", Gen: c06ListenerGen, Eval: c06ListenerEval, Setup: c06SetupSetup, Teardown: c06SetupTeardown})
}
