//go:build c10

package streams

import (
	"bytes"
	"fmt"
	"io"
	"log"
	"os"
	"path/filepath"
	"sort"
	"strconv"
	"strings"
	"time"

	"github.com/tmpim/casket/casketfile"

	"verifharness/hx"
)

// Streams of C10 (see lean/Driver/C10.lean for the line protocol).
//
//	c10.lex      arbitrary bytes through the real lexer (casketfile.NewDispenser + Next/Val/Line)
//	c10.parse    casketfile.Parse on token soups, mutated suite inputs and random bytes, with imports
//	             (files written to a fresh directory), snippets, cycles and environment references
//	c10.rt       random configurations (blocks, keys, directives, nested sub-blocks, quoted/escaped tokens)
//	             written out with random layout and randomly split into snippets and imported files;
//	             the case carries the blocks that were written
//	c10.envloop  environment values that refer to themselves (finding F19)
//
// Every Parse call runs under a watchdog: a loop is the answer TIMEOUT, not a hang.

const c10Watchdog = 4 * time.Second

var c10Dir string // an empty directory for cases without files

func c10Setup() error {
	log.SetOutput(io.Discard)
	d, err := os.MkdirTemp("", "c10-empty-")
	if err != nil {
		return err
	}
	c10Dir = d
	return nil
}

func c10Teardown() {
	if c10Dir != "" {
		os.RemoveAll(c10Dir)
	}
}

// ---------------------------------------------------------------- evaluators

func c10LexEval(f []string) (string, []string) {
	if len(f) != 1 {
		return "bad-case", nil
	}
	in := hx.UnH(f[0])
	d := casketfile.NewDispenser("Casketfile", bytes.NewReader(in))
	var parts []string
	multi := false
	for d.Next() {
		parts = append(parts, strconv.Itoa(d.Line())+":"+hx.HS(d.Val()))
		if strings.Contains(d.Val(), "\n") {
			multi = true
		}
	}
	tags := []string{fmt.Sprintf("tokens=%s", c10Bucket(len(parts)))}
	if len(parts) == 0 {
		tags = append(tags, "trivial-no-token")
	}
	if bytes.ContainsAny(in, "\"") {
		tags = append(tags, "quote")
	}
	if bytes.ContainsAny(in, "\\") {
		tags = append(tags, "backslash")
	}
	if bytes.ContainsAny(in, "#") {
		tags = append(tags, "comment")
	}
	if multi {
		tags = append(tags, "multiline-token")
	}
	for _, b := range in {
		if b >= 0x80 {
			tags = append(tags, "non-ascii")
			break
		}
	}
	return strings.Join(parts, ","), tags
}

func c10Bucket(n int) string {
	switch {
	case n == 0:
		return "0"
	case n <= 3:
		return "1-3"
	case n <= 10:
		return "4-10"
	case n <= 40:
		return "11-40"
	}
	return "41+"
}

type c10res struct {
	blocks []casketfile.ServerBlock
	err    error
	pan    interface{}
}

func c10SplitKV(s string) [][2]string {
	var out [][2]string
	if s == "" {
		return out
	}
	for _, kv := range strings.Split(s, ",") {
		i := strings.IndexByte(kv, '=')
		out = append(out, [2]string{kv[:i], kv[i+1:]})
	}
	return out
}

// c10Run calls the real parser under the watchdog and renders its answer canonically.
func c10Run(dir string, main []byte, valid []string) (string, int) {
	filename := filepath.Join(dir, "Casketfile")
	ch := make(chan c10res, 1)
	go func() {
		defer func() {
			if r := recover(); r != nil {
				ch <- c10res{pan: r}
			}
		}()
		b, err := casketfile.Parse(filename, bytes.NewReader(main), valid)
		ch <- c10res{blocks: b, err: err}
	}()
	var r c10res
	select {
	case r = <-ch:
	case <-time.After(c10Watchdog):
		return "TIMEOUT", 0
	}
	if r.pan != nil {
		return "PANIC:" + strings.SplitN(fmt.Sprint(r.pan), "\n", 2)[0], 0
	}
	short := func(p string) string {
		if strings.HasPrefix(p, dir+string(filepath.Separator)) {
			return p[len(dir)+1:]
		}
		return p
	}
	if r.err != nil {
		return c10Err(r.err.Error(), short), 0
	}
	var sb strings.Builder
	sb.WriteString("ok")
	ntok := 0
	for _, b := range r.blocks {
		sb.WriteByte('|')
		for i, k := range b.Keys {
			if i > 0 {
				sb.WriteByte(',')
			}
			sb.WriteString(hx.HS(k))
		}
		names := make([]string, 0, len(b.Tokens))
		for n := range b.Tokens {
			names = append(names, hx.HS(n))
		}
		sort.Strings(names)
		for _, hn := range names {
			sb.WriteByte(';')
			sb.WriteString(hn)
			sb.WriteByte('=')
			for i, t := range b.Tokens[hx.UnHS(hn)] {
				if i > 0 {
					sb.WriteByte(',')
				}
				fmt.Fprintf(&sb, "%s:%d:%s", short(t.File), t.Line, hx.HS(t.Text))
				ntok++
			}
		}
	}
	return sb.String(), ntok
}

// c10Err maps a parser error to  err:<class>:<file>:<line>.
func c10Err(msg string, short func(string) string) string {
	i := strings.Index(msg, " - ")
	if i < 0 {
		return "err:unpositioned::0"
	}
	pos, rest := msg[:i], msg[i+3:]
	j := strings.LastIndexByte(pos, ':')
	if j < 0 {
		return "err:unpositioned::0"
	}
	file, line := short(pos[:j]), pos[j+1:]
	if _, err := strconv.Atoi(line); err != nil {
		return "err:unpositioned::0"
	}
	cls := "other"
	body := strings.TrimPrefix(rest, "Error during parsing: ")
	switch {
	case strings.HasPrefix(rest, "Syntax error: ") && strings.HasSuffix(rest, "expecting '{'"):
		cls = "syntax-open"
	case strings.HasPrefix(rest, "Syntax error: ") && strings.HasSuffix(rest, "expecting '}'"):
		cls = "syntax-close"
	case strings.HasPrefix(body, "Unknown directive"):
		cls = "unknown-directive"
	case strings.HasPrefix(body, "Unexpected '}' because"):
		cls = "unexpected-close"
	case strings.HasPrefix(body, "Unexpected EOF"):
		cls = "eof"
	case strings.HasPrefix(body, "Expected another address"):
		cls = "expected-another-address"
	case strings.HasPrefix(body, "redeclaration of previously declared snippet"):
		cls = "snippet-redeclared"
	case strings.HasPrefix(body, "Unexpected token '{', expecting argument"), strings.HasPrefix(body, "Wrong argument count"):
		cls = "argerr"
	case strings.HasPrefix(body, "Import requires a non-empty"):
		cls = "import-empty"
	case strings.HasPrefix(body, "Import takes only one"):
		cls = "import-many"
	case strings.HasPrefix(body, "Import cycle"):
		cls = "import-cycle"
	case strings.HasPrefix(body, "Glob pattern may only"), strings.HasPrefix(body, "Failed to use import pattern"),
		strings.HasPrefix(body, "File to import not found"), strings.HasPrefix(body, "Could not import"),
		strings.HasPrefix(body, "Could not read tokens"), strings.HasPrefix(body, "Failed to get absolute"):
		cls = "import-fs"
	}
	return "err:" + cls + ":" + file + ":" + line
}

func c10ParseEval(f []string) (string, []string) {
	if len(f) < 4 {
		return "bad-case", nil
	}
	validS, envS, fsS, mainHex := f[0], f[1], f[2], f[3]
	var valid []string
	if validS != "-" {
		valid = []string{}
		if validS != "" {
			for _, h := range strings.Split(validS, ",") {
				valid = append(valid, hx.UnHS(h))
			}
		}
	}
	for _, kv := range c10SplitKV(envS) {
		v := hx.UnHS(kv[1])
		if os.Getenv(kv[0]) != v {
			os.Setenv(kv[0], v)
		}
	}
	dir := c10Dir
	files := c10SplitKV(fsS)
	if len(files) > 0 {
		d, err := os.MkdirTemp("", "c10-")
		if err != nil {
			return "setup-error:" + err.Error(), nil
		}
		defer os.RemoveAll(d)
		dir = d
		for _, kv := range files {
			if err := os.WriteFile(filepath.Join(d, kv[0]), hx.UnH(kv[1]), 0o644); err != nil {
				return "setup-error:" + err.Error(), nil
			}
		}
	}
	main := hx.UnH(mainHex)
	out, ntok := c10Run(dir, main, valid)
	var tags []string
	switch {
	case strings.HasPrefix(out, "ok"):
		tags = append(tags, "ok", "blocks="+c10Bucket(strings.Count(out, "|")), "tokens="+c10Bucket(ntok))
		if ntok == 0 {
			tags = append(tags, "trivial-no-directive-token")
		}
	case strings.HasPrefix(out, "err:"):
		tags = append(tags, strings.Join(strings.SplitN(out, ":", 3)[:2], ":"))
	default:
		tags = append(tags, strings.SplitN(out, ":", 2)[0])
	}
	all := string(main)
	for _, kv := range files {
		all += "\n" + hx.UnHS(kv[1])
	}
	if strings.Contains(all, "import") {
		tags = append(tags, "import")
		if len(files) > 0 {
			tags = append(tags, "files")
		}
	}
	if strings.Contains(all, "(s") {
		tags = append(tags, "snippet")
	}
	if strings.Contains(all, "{$") || strings.Contains(all, "{%") {
		tags = append(tags, "env")
	}
	if validS != "-" {
		tags = append(tags, "valid-list")
	}
	return out, tags
}

// ---------------------------------------------------------------- generators

// bytes that matter to the lexer, and some that must not
var c10LexAlphabet = []string{"a", "b", " ", "\n", "\"", "\\", "#", "\r", "\t", "{", "}", ",", "x", "\u00a0", "\u0085", "\u2003", "\u3000",
	"\ufeff", "\u00e9", "\u20ac", "\U0001F600", "\x80", "\xc0", "\xe2\x82", "\xed\xa0\x80", "\xf4\x90\x80\x80", "\xf5", "\xff", "\x00", "\x0b", "\x0c", "$", "%", "(", ")"}

var c10Suite = []string{
	"localhost", "localhost\ndir1", "localhost:1234\ndir1 foo bar", "localhost {\n dir1\n}", "localhost:1234 {\n dir1 foo bar\n dir2\n}",
	"http://localhost https://localhost\ndir1 foo bar", "http://localhost, https://localhost {\n dir1 foo bar\n}",
	"http://localhost,\nhttps://localhost {\n}", "localhost\ndir1 {\nfoo bar\n}", "localhost\ndir1 {\nfoo {\nbar\n}\n}\ndir2 foo bar",
	"host1 {\n dir1\n}\n\nhost2 {\n dir2 \"arg with spaces\"\n}", "A \"quoted value with line\n\t\t\t\t\tbreak inside\" {\n\tfoobar\n}",
	"\"C:\\php\\php-cgi.exe\"", "\"\\\"quoted\\\"\" a\"b \"c\\d\"", "# comment\nhost # trailing\n dir1 a#b c", "\xef\xbb\xbfhost\r\n dir1 a\r\n",
	"localhost\ndir1 {\n", "localhost\ndir1 }\n", "localhost {\ndir1\n", "localhost{\n dir1\n}", "{\n dir1\n}", "a, b,\n", "a,\n{", "(s1) {\n dir1 x\n}\nhost {\n import s1\n}",
	"import f0\n", "host {\n dir1 {$CV_A} {%CV_A%}\n}", "{$CV_A}:80, b{%CV_EMPTY%}\n dir1", "host\ndir1 import x\nimport\n", "host\nimport f0 f1\n", "host\nimport \"\"\n",
}

var c10EnvTable = [][2]string{
	{"CV_A", "alpha"}, {"CV_EMPTY", ""}, {"CV_SP", "a b"}, {"CV_IMPORT", "import"}, {"CV_OPEN", "{"}, {"CV_CLOSE", "}"},
	{"CV_NL", "x\ny"}, {"CV_COMMA", "k,"}, {"CV_F0", "f0"}, {"CV_S1", "s1"}, {"CV_DOLLAR", "$CV_A"}, {"CV_REF", "<{%CV_A%}>"},
}

func c10EnvField(tab [][2]string) string {
	var p []string
	for _, kv := range tab {
		p = append(p, kv[0]+"="+hx.HS(kv[1]))
	}
	return strings.Join(p, ",")
}

func c10FSField(files map[string]string) string {
	var names []string
	for n := range files {
		names = append(names, n)
	}
	sort.Strings(names)
	var p []string
	for _, n := range names {
		p = append(p, n+"="+hx.HS(files[n]))
	}
	return strings.Join(p, ",")
}

func c10LexGen(g *hx.Gen) {
	small := []string{"a", " ", "\n", "\"", "\\", "#", "\r", "{"}
	maxLen := 4
	if g.Thorough() {
		maxLen = 6
	}
	// exhaustive: every string up to maxLen over the 8 significant bytes
	var rec func(prefix string, n int)
	rec = func(prefix string, n int) {
		g.Case(hx.HS(prefix))
		if n == 0 {
			return
		}
		for _, s := range small {
			rec(prefix+s, n-1)
		}
	}
	rec("", maxLen)
	for _, s := range c10Suite {
		g.Case(hx.HS(s))
	}
	N := 10000
	if g.Thorough() {
		N = 100000
	}
	for i := 0; i < N; i++ {
		g.Case(hx.HS(c10RandText(g.Rng, 1+g.Rng.Intn(40))))
	}
	for i := 0; i < N/4; i++ {
		g.Case(hx.HS(c10Mutate(g.Rng, hx.Pick(g.Rng, c10Suite))))
	}
}

func c10RandText(r *hx.Rng, n int) string {
	var sb strings.Builder
	for i := 0; i < n; i++ {
		switch r.Intn(10) {
		case 0:
			sb.WriteByte(byte(r.Intn(256)))
		case 1, 2, 3:
			sb.WriteString(hx.Pick(r, c10LexAlphabet[:12]))
		default:
			sb.WriteString(hx.Pick(r, c10LexAlphabet))
		}
	}
	return sb.String()
}

func c10Mutate(r *hx.Rng, s string) string {
	b := []byte(s)
	for k := 1 + r.Intn(3); k > 0; k-- {
		ins := hx.Pick(r, c10LexAlphabet)
		if r.Chance(1, 3) {
			ins = hx.Pick(r, []string{"{", "}", "\"", "\n", "import ", "{$CV_A}", "\\", "#", ",", "(s1)", " {\n", "\n}\n"})
		}
		pos := 0
		if len(b) > 0 {
			pos = r.Intn(len(b) + 1)
		}
		switch r.Intn(3) {
		case 0: // insert
			b = append(b[:pos], append([]byte(ins), b[pos:]...)...)
		case 1: // delete
			if pos < len(b) {
				end := pos + 1 + r.Intn(3)
				if end > len(b) {
					end = len(b)
				}
				b = append(b[:pos], b[end:]...)
			}
		default: // replace
			if pos < len(b) {
				b = append(b[:pos], append([]byte(ins), b[pos+1:]...)...)
			}
		}
	}
	return string(b)
}

// token soup: lines of tokens drawn from a vocabulary that reaches every branch of the parser
var c10Vocab = []string{"host", "host2:80", "a,", "b,", ",", "{", "}", "{", "}", "import", "import", "f0", "f1", "f*", "*.c", "f?", "g.c", "nofile", "no*",
	"(s1)", "(s2)", "s1", "s2", "dir1", "dir2", "dir3", "arg", "\"q arg\"", "\"\"", "\"multi\nline\"", "{$CV_A}", "{%CV_A%}", "{$CV_IMPORT}", "{$CV_OPEN}",
	"{$CV_CLOSE}", "{$CV_EMPTY}", "{$CV_NL}", "{$CV_COMMA}", "{$CV_F0}", "{$CV_S1}", "{$CV_UNSET}", "{$}", "{%%}", "{$CV_REF}", "{{$CV_DOLLAR}}", "#c", "()", "(", "x)", "f[0]", "f\\0", "f0\\", "f[", "**", "??", "."}

func c10Soup(r *hx.Rng, lines int) string {
	var sb strings.Builder
	for l := 0; l < lines; l++ {
		n := r.Intn(5)
		for i := 0; i < n; i++ {
			if i > 0 {
				sb.WriteString(hx.Pick(r, []string{" ", " ", "\t", "  "}))
			}
			// imports mostly well formed
			if r.Chance(1, 8) {
				sb.WriteString("import " + hx.Pick(r, []string{"f0", "f1", "f*", "*.c", "s1", "s2", "g.c", "f?", "*", "h.c", "no*", "Casketfile"}))
				if r.Chance(5, 6) {
					break // imports mostly end their line
				}
				continue
			}
			sb.WriteString(hx.Pick(r, c10Vocab))
		}
		sb.WriteString(hx.Pick(r, []string{"\n", "\n", "\n", "\r\n", "\n\n", " # c\n"}))
	}
	return sb.String()
}

func c10ValidField(r *hx.Rng) string {
	if r.Chance(3, 4) {
		return "-"
	}
	names := []string{"dir1", "dir2", "alpha"}
	if r.Chance(1, 2) {
		names = append(names, "dir3", "")
	}
	var p []string
	for _, n := range names {
		p = append(p, hx.HS(n))
	}
	return strings.Join(p, ",")
}

func c10ParseGen(g *hx.Gen) {
	env := c10EnvField(c10EnvTable)
	r := g.Rng
	for _, s := range c10Suite {
		files := map[string]string{"f0": "dir2 x\n", "f1": "host3 {\n dir1\n}\n"}
		g.Case("-", env, c10FSField(files), hx.HS(s))
	}
	// hand-written cycle shapes (file -> itself, two files, through a glob, through a snippet, snippet -> itself)
	cyc := []struct {
		main  string
		files map[string]string
	}{
		{"import f0\n", map[string]string{"f0": "import f0\n"}},
		{"host {\n import f0\n}\n", map[string]string{"f0": "dir1 a\nimport f0\n"}},
		{"host {\n import f0\n}\n", map[string]string{"f0": "dir1 a\nimport f1\n", "f1": "dir2\nimport f0\n"}},
		{"host {\n import f*\n}\n", map[string]string{"f0": "dir1 a\n", "f1": "dir2\nimport f*\n"}},
		{"host {\n import f*\n}\n", map[string]string{"f0": "dir1 a\n", "f1": "dir2\nimport f0\n"}},
		{"(s1) {\n import s1\n}\nhost {\n import s1\n}\n", nil},
		{"(s1) {\n dir1\n import s2\n}\n(s2) {\n import s1\n}\nhost {\n import s2\n}\n", nil},
		{"(s1) {\n import f0\n}\nhost {\n import s1\n}\n", map[string]string{"f0": "dir1\nimport s1\n"}},
		{"host {\n dir1 {\n  import f0\n }\n}\n", map[string]string{"f0": "a b\nimport f0\n"}},
		{"import f0\nimport f0\n", map[string]string{"f0": "(s1) {\n}\n"}},
		// imports that expand to nothing at the end of the input (error positions)
		{"a,\nimport no*\n", nil}, {"host {\n import no*", nil}, {"host {\n dir1 {\n  import no*\n", nil}, {"import no*", nil},
		{"a,\nimport f0\n", map[string]string{"f0": "# nothing\n"}}, {"host {\nimport f0\n", map[string]string{"f0": ""}},
		{"(s1) {\n}\nhost {\n import s1", nil}, {"a,\n(s1) {\n}\nb,\nimport s1", nil},
		{"host {\n import f0\n import f0\n import f1\n}\n", map[string]string{"f0": "dir1 a\n", "f1": "import f0\nimport f0\n"}},
	}
	for _, c := range cyc {
		g.Case("-", env, c10FSField(c.files), hx.HS(c.main))
	}
	N := 16000
	if g.Thorough() {
		N = 150000
	}
	for i := 0; i < N; i++ {
		files := map[string]string{}
		nf := r.Intn(4)
		names := []string{"f0", "f1", "g.c", "h.c", "Casketfile"}
		for k := 0; k < nf; k++ {
			switch r.Intn(10) {
			case 0:
				files[hx.Pick(r, names)] = "" // an empty file can not be imported
			case 1:
				files[hx.Pick(r, names)] = hx.Pick(r, []string{"# only a comment\n", "\n\n", " ", "\ufeff"})
			default:
				files[hx.Pick(r, names)] = c10Soup(r, 1+r.Intn(4))
			}
		}
		var main string
		switch r.Intn(6) {
		case 0:
			main = c10Mutate(r, hx.Pick(r, c10Suite))
		case 1:
			main = c10NoSlashAfterImport(c10RandText(r, 1+r.Intn(60)))
		default:
			main = c10Soup(r, 1+r.Intn(8))
		}
		g.Case(c10ValidField(r), env, c10FSField(files), hx.HS(c10NoSlashAfterImport(main)))
	}
}

// import patterns with a path separator resolve outside the one directory the model knows.
func c10NoSlashAfterImport(s string) string {
	if !strings.Contains(s, "import") {
		return s
	}
	return strings.NewReplacer("/", "_").Replace(s)
}

func c10EnvLoopGen(g *hx.Gen) {
	loops := [][2]string{{"CV_SELF", "{$CV_SELF}"}, {"CV_PSELF", "a{%CV_PSELF%}"}}
	g.Case("-", c10EnvField(loops[:1]), "", hx.HS("host\ndir1 {$CV_SELF}\n"))
	g.Case("-", c10EnvField(loops[1:]), "", hx.HS("{%CV_PSELF%}\n"))
}

func init() {
	hx.Register(&hx.Stream{ID: "C10", Name: "c10.lex", Gen: c10LexGen, Eval: c10LexEval})
	hx.Register(&hx.Stream{ID: "C10", Name: "c10.parse", Gen: c10ParseGen, Eval: c10ParseEval, Setup: c10Setup, Teardown: c10Teardown})
	hx.Register(&hx.Stream{ID: "C10", Name: "c10.rt", Gen: c10RtGen, Eval: c10ParseEval, Setup: c10Setup, Teardown: c10Teardown})
	hx.Register(&hx.Stream{ID: "C10", Name: "c10.envloop", Gen: c10EnvLoopGen, Eval: c10ParseEval, Setup: c10Setup, Teardown: c10Teardown})
}
