//go:build c01

package streams

import (
	"fmt"
	"net"
	"net/http"
	"net/http/httptest"
	"net/url"
	"strconv"
	"strings"

	"github.com/tmpim/casket"
	_ "github.com/tmpim/casket/caskethttp/bind" // the bind directive
	"github.com/tmpim/casket/caskethttp/httpserver"

	"verifharness/hx"
)

// c01.auto  blocks  lbind  lport  hosthex  pathhex  protoMajor
//   blocks = comma list of <addrhex>:<bindhex>:<tls>; each becomes its own server block of a Casketfile
//            (address, optional `bind`, optional `tls`), in order; tls = none | off | email | self [+nr]
//   lbind/lport = the listener the request goes to: net.ResolveTCPAddr(JoinHostPort(lbind, lport)).String()
//   out   = load:<class> | directive-error | makeservers-error | nolistener
//         | served TAB <declared> TAB <members> TAB (site TAB <position in members> TAB <path_prefix hex> | notfound TAB <status>)
//           members = the sites the listener holds: <idx>:<Addr.Original hex>:<Addr.Host hex>, idx = position in the
//           final config list (declared sites, then the synthesised HTTP->HTTPS redirect sites)
//
// The real code path: Casketfile text -> loader front end (InspectServerBlocks, the setup functions of `bind`
// and `tls`) -> the pure stages of activateHTTPS in its order (markQualifiedForAutoHTTPS, enableAutoHTTPS without
// loading certificates, makePlaintextRedirects) -> one marker middleware in front of EVERY site's stack, the
// synthesised redirect sites included -> httpContext.MakeServers (TLS-off rule, grouping by resolved listen
// address, NewServer) -> Server.ServeHTTP of the chosen listener.  Nothing listens, nothing contacts a CA.
// Bind values are IP literals (no name resolution).

func c01AutoTLS(v string) (string, bool) {
	switch v {
	case "none":
		return "", true
	case "off":
		return "  tls off\n", true
	case "email":
		return "  tls admin@verif.test\n", true
	case "email+nr":
		return "  tls admin@verif.test {\n    no_redirect\n  }\n", true
	case "self":
		return "  tls self_signed\n", true
	case "self+nr":
		return "  tls self_signed {\n    no_redirect\n  }\n", true
	}
	return "", false
}

func c01AutoEval(f []string) (string, []string) {
	if len(f) != 6 {
		return "bad-case", nil
	}
	var text strings.Builder
	var addrs []string
	if f[0] != "" {
		for _, b := range strings.Split(f[0], ",") {
			p := strings.Split(b, ":")
			if len(p) != 3 {
				return "bad-case", nil
			}
			a, bind := hx.UnHS(p[0]), hx.UnHS(p[1])
			t, ok := c01AutoTLS(p[2])
			if !ok {
				return "bad-case", nil
			}
			if !c01InAddrDomain(a) || strings.ContainsAny(a, "{}\",\\") || a == "" {
				return "load:outofmodel", []string{"trivial-out-of-model"}
			}
			if bind != "" && net.ParseIP(bind) == nil && !(strings.HasPrefix(bind, "[") && strings.HasSuffix(bind, "]")) {
				return "bad-case", nil // names would be resolved: outside this stream
			}
			addrs = append(addrs, a)
			text.WriteString(a + " {\n")
			if bind != "" {
				text.WriteString("  bind " + bind + "\n")
			}
			text.WriteString(t + "}\n")
		}
	}
	lbind, lport := hx.UnHS(f[1]), f[2]
	host, path := hx.UnHS(f[3]), hx.UnHS(f[4])
	pm, _ := strconv.Atoi(f[5])
	tags := []string{fmt.Sprintf("addrs=%d", len(addrs))}

	inst, ctx, err := casket.VerifC15Load(casket.CasketfileInput{Filepath: "Testfile", Contents: []byte(text.String()), ServerTypeName: "http"})
	defer inst.ShutdownCallbacks()
	if err != nil {
		m := err.Error()
		cls := "other:" + strings.SplitN(m, "\n", 2)[0]
		switch {
		case strings.Contains(m, "scheme and port violate convention"):
			cls = "convention"
		case strings.Contains(m, "duplicate site key"):
			cls = "dupkey"
		case strings.Contains(m, "duplicate site address"), strings.Contains(m, "is a duplicate of"):
			cls = "dupaddr"
		case strings.Contains(m, "certificate has no names"):
			return "directive-error", append(tags, "trivial-directive-error")
		case strings.HasPrefix(m, "parse:"):
			cls = "casketfile"
		case strings.Contains(m, "parse "), strings.Contains(m, "invalid"):
			cls = "url"
		}
		return "load:" + cls, append(tags, "rejected-"+cls)
	}
	cfgs := httpserver.VerifC15Configs(ctx)
	if len(cfgs) != len(addrs) {
		return fmt.Sprintf("config-count:%d", len(cfgs)), tags
	}
	for i, sc := range cfgs {
		if sc.Addr.Original != addrs[i] {
			return "config-order-differs", tags
		}
	}
	// the pure stages of activateHTTPS, in its order
	httpserver.VerifC15Mark(cfgs)
	if err := httpserver.VerifC15Enable(cfgs); err != nil {
		return "enable-error", tags
	}
	all := httpserver.VerifC15Redirects(cfgs)
	httpserver.VerifC15SetConfigs(ctx, all)
	if len(all) > len(cfgs) {
		tags = append(tags, "redirect-sites")
	}
	type hit struct {
		cfg    *httpserver.SiteConfig
		prefix string
	}
	var ran []hit
	for i, sc := range all {
		sc := sc
		declared := i < len(cfgs)
		httpserver.VerifC01PrependMiddleware(sc, func(next httpserver.Handler) httpserver.Handler {
			return httpserver.HandlerFunc(func(w http.ResponseWriter, r *http.Request) (int, error) {
				pfx, _ := r.Context().Value(casket.CtxKey("path_prefix")).(string)
				ran = append(ran, hit{sc, pfx})
				if declared {
					w.WriteHeader(200)
					return 0, nil
				}
				return next.ServeHTTP(w, r) // the synthesised site's own redirect handler
			})
		})
	}
	servers, err := httpserver.VerifC15MakeServers(ctx)
	if err != nil {
		return "makeservers-error", append(tags, "trivial-makeservers-error")
	}
	tags = append(tags, fmt.Sprintf("listeners=%d", len(servers)))
	want := ":" + lport
	if lbind != "" {
		ta, err := net.ResolveTCPAddr("tcp", net.JoinHostPort(lbind, lport))
		if err != nil {
			return "nolistener", append(tags, "trivial-no-listener")
		}
		want = ta.String()
	}
	var srv *httpserver.Server
	for _, s := range servers {
		if hs, ok := s.(*httpserver.Server); ok && hs.Server.Addr == want {
			srv = hs
		}
	}
	if srv == nil {
		return "nolistener", append(tags, "trivial-no-listener")
	}
	group := httpserver.VerifC01ServerSites(srv)
	members := make([]string, len(group))
	binds := map[string]bool{}
	synth := false
	for j, sc := range group {
		idx := -1
		for i, c := range all {
			if c == sc {
				idx = i
			}
		}
		if idx < 0 {
			return "unknown-site-in-listener", tags
		}
		if idx >= len(cfgs) {
			synth = true
		}
		binds[sc.ListenHost] = true
		members[j] = strconv.Itoa(idx) + ":" + hx.HS(sc.Addr.Original) + ":" + hx.HS(sc.Addr.Host)
	}
	if len(binds) > 1 {
		tags = append(tags, "listener-of-several-bind-spellings")
	}
	if synth && len(group) > 1 {
		tags = append(tags, "listener-with-redirect-and-other-sites")
	}
	if len(group) < 2 {
		tags = append(tags, "trivial-one-site")
	}
	head := "served\t" + strconv.Itoa(len(cfgs)) + "\t" + strings.Join(members, ",") + "\t"

	req := &http.Request{Method: "GET", Host: host, URL: &url.URL{Path: path}, Proto: "HTTP/1.1", ProtoMajor: pm, ProtoMinor: 1,
		Header: http.Header{}, RemoteAddr: "192.0.2.1:4000", RequestURI: path}
	rec := httptest.NewRecorder()
	srv.ServeHTTP(rec, req)
	switch {
	case len(ran) == 1:
		pos := -1
		for j, sc := range group {
			if sc == ran[0].cfg {
				pos = j
			}
		}
		if pos < 0 {
			return head + "foreign-site-ran", tags
		}
		return head + "site\t" + strconv.Itoa(pos) + "\t" + hx.HS(ran[0].prefix), append(tags, "served")
	case len(ran) == 0:
		return head + "notfound\t" + strconv.Itoa(rec.Code), append(tags, "notfound")
	}
	return head + fmt.Sprintf("unexpected:ran=%d,status=%d", len(ran), rec.Code), tags
}

func c01AutoGen(g *hx.Gen) {
	type blk struct{ addr, bind, tls string }
	emit := func(bs []blk, lbind, lport, host, path string, pm int) {
		hs := make([]string, len(bs))
		for i, b := range bs {
			hs[i] = hx.HS(b.addr) + ":" + hx.HS(b.bind) + ":" + b.tls
		}
		g.Case(strings.Join(hs, ","), hx.HS(lbind), lport, hx.HS(host), hx.HS(path), strconv.Itoa(pm))
	}
	// groups of bind spellings; within a group every spelling resolves to the same listen address
	bindGroups := [][]string{
		{""},
		{"127.0.0.1", "::ffff:127.0.0.1", "0:0:0:0:0:ffff:7f00:1"},
		{"::1", "0:0:0:0:0:0:0:1", "0::1"},
		{"10.0.0.1", "::ffff:10.0.0.1"},
		{"0.0.0.0"},
		{"fd00::1", "FD00::1", "fd00:0::1"},
	}
	var allBinds []string
	for _, grp := range bindGroups {
		allBinds = append(allBinds, grp...)
	}
	reqHosts := []string{"a.com", "A.COM:80", "b.a.com", "x.a.com", "zzz", "example.test"}
	reqPaths := []string{"/", "/foo", "/foo/bar"}
	// (1) one host declared as a TLS site and as a plain HTTP site, every pair of bind spellings, both orders
	tlsSites := []blk{{"https://a.com", "", "self"}, {"a.com", "", "email"}, {"a.com:8443", "", "self"}, {"a.com:443", "", "email+nr"}, {"a.com", "", "self+nr"}}
	plainSites := []blk{{"http://a.com", "", "none"}, {"a.com:80", "", "none"}, {"http://a.com/foo", "", "none"}, {"http://*.a.com", "", "none"}, {"a.com:80", "", "self"}}
	n := 0
	for _, t := range tlsSites {
		for _, p := range plainSites {
			for _, b1 := range allBinds {
				for _, b2 := range allBinds {
					n++
					if !g.Thorough() && b1 != b2 && (n%3 != 0) && !(b1 != "" && b2 != "" && c01SameBindGroup(bindGroups, b1, b2)) {
						continue
					}
					t1, p1 := t, p
					t1.bind, p1.bind = b1, b2
					for _, order := range [][]blk{{t1, p1}, {p1, t1}} {
						for _, lb := range []string{b1, b2} {
							h := reqHosts[n%len(reqHosts)]
							if n%2 == 0 {
								h = "a.com"
							}
							emit(order, lb, "80", h, reqPaths[n%len(reqPaths)], 1+n%2)
						}
					}
				}
			}
		}
	}
	// (2) hand-picked sets in every order: redirect sites beside declared sites of other hosts / wildcards / catch-alls
	sets := [][]blk{
		{{"a.com", "", "email"}, {"http://*.a.com", "", "none"}, {":80", "", "none"}},
		{{"a.com", "127.0.0.1", "self"}, {"b.a.com", "::ffff:127.0.0.1", "self"}, {"http://b.a.com", "127.0.0.1", "none"}},
		{{"a.com:443", "", "email"}, {"a.com:8443", "", "self"}, {"http://a.com/foo", "", "none"}},
		{{"https://a.com", "::1", "self"}, {"http://a.com", "0:0:0:0:0:0:0:1", "none"}, {"http://a.com", "127.0.0.1", "none"}},
		{{"a.com", "10.0.0.1", "email"}, {"a.com:80", "::ffff:10.0.0.1", "none"}, {"*.a.com:80", "10.0.0.1", "none"}},
		{{"a.com", "", "email"}, {"b.a.com", "", "email+nr"}, {"*.a.com", "", "self"}, {"0.0.0.0:80", "", "none"}},
		{{"https://a.com/foo", "", "self"}, {"http://a.com/foo/bar", "", "none"}, {"a.com:8080", "", "none"}},
		{{"a.com", "", "self"}, {"a.com:80", "", "none"}},
		{{"a.com:8443", "127.0.0.1", "self"}, {"b.a.com:8443", "::ffff:127.0.0.1", "none"}},
		{{"a.com", "[::1]", "none"}},
	}
	for _, set := range sets {
		for _, perm := range c01Perms(len(set)) {
			bs := make([]blk, len(set))
			for i, j := range perm {
				bs[i] = set[j]
			}
			seen := map[string]bool{}
			for _, b := range set {
				if seen[b.bind] {
					continue
				}
				seen[b.bind] = true
				for _, lp := range []string{"80", "443", "2015", "8443"} {
					for _, h := range reqHosts {
						for _, p := range reqPaths {
							emit(bs, b.bind, lp, h, p, 1)
						}
					}
				}
			}
		}
	}
	// (3) seeded random Casketfiles of 1..5 blocks; an address carries a scheme or a port, never both
	hosts := []string{"a.com", "A.com", "*.a.com", "b.a.com", "", "example.test", "[::1]", "10.1.2.3"}
	tlss := []string{"none", "none", "off", "email", "email+nr", "self", "self+nr"}
	paths := []string{"", "", "/foo", "/foo/bar"}
	N := 6000
	if g.Thorough() {
		N = 150000
	}
	for it := 0; it < N; it++ {
		r := g.Rng
		k := 1 + r.Intn(5)
		grp := hx.Pick(r, bindGroups)
		bs := make([]blk, k)
		for i := range bs {
			h := hx.Pick(r, hosts)
			var a string
			switch r.Intn(3) {
			case 0:
				a = hx.Pick(r, []string{"http://", "https://"}) + h
				if h == "" {
					a = hx.Pick(r, []string{":80", ":443", ":2015"})
				}
			case 1:
				a = h + hx.Pick(r, []string{":80", ":443", ":8443", ":2015"})
			default:
				a = h
				if h == "" {
					a = ":2015"
				}
			}
			b := hx.Pick(r, grp)
			if r.Chance(1, 5) {
				b = hx.Pick(r, allBinds)
			}
			bs[i] = blk{a + hx.Pick(r, paths), b, hx.Pick(r, tlss)}
		}
		h := hx.Pick(r, reqHosts)
		if r.Bool() {
			a := bs[r.Intn(k)].addr
			if i := strings.Index(a, "://"); i >= 0 {
				a = a[i+3:]
			}
			a = strings.SplitN(a, "/", 2)[0]
			if a != "" && !strings.HasPrefix(a, ":") {
				h = strings.ReplaceAll(a, "*", "x")
			}
		}
		emit(bs, hx.Pick(r, grp), hx.Pick(r, []string{"80", "80", "443", "2015", "8443"}), h, hx.Pick(r, reqPaths), 1+r.Intn(2))
	}
}

func c01SameBindGroup(groups [][]string, a, b string) bool {
	for _, g := range groups {
		ina, inb := false, false
		for _, s := range g {
			ina = ina || s == a
			inb = inb || s == b
		}
		if ina && inb {
			return true
		}
	}
	return false
}

func init() {
	hx.Register(&hx.Stream{ID: "C01", Name: "c01.auto", Gen: c01AutoGen, Eval: c01AutoEval, Setup: c01StackSetup, Teardown: c01StackTeardown})
}
