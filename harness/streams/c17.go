//go:build c17

package streams

import (
	"errors"
	"fmt"
	"io"
	"log"
	"net"
	"net/http"
	"net/http/httptest"
	"os"
	"strconv"
	"strings"
	"sync"
	"time"

	"github.com/tmpim/casket"
	"github.com/tmpim/casket/caskethttp/httpserver"
	_ "github.com/tmpim/casket/caskethttp"
	_ "github.com/tmpim/casket/caskethttp/limits"
	_ "github.com/tmpim/casket/caskethttp/proxy"
	_ "github.com/tmpim/casket/caskethttp/timeouts"

	"verifharness/hx"
)

// C17 — body-size limits are exact; shared listener limits are the strictest.
//
// c17.reader / c17.scope   cs  table  path  data  script  errWithLast  endErr  bufs
//     The `limits` directive is set up from Casketfile text (real parseLimits, addPathLimit,
//     SortPathLimits), the resulting middleware wraps a handler that Reads r.Body with the given
//     buffer sizes, and r.Body is a scripted reader.  out = every Read's (bytes, error).
// c17.match     cs  path  base            httpserver.Path(path).Matches(base)
// c17.listener  group                     timeouts/limits directives per site -> httpserver.NewServer -> http.Server fields
// c17.proxy     cs  table  path  data  framing  buffered
//     limits + proxy in front of a loopback backend that drains its input.

var c17mu sync.Mutex // httpserver.CaseSensitivePath is a package variable

var errC17Other = errors.New("client went away")

type c17Body struct {
	data   []byte
	script []int
	ewl    bool
	endErr error
}

func (s *c17Body) Read(p []byte) (int, error) {
	if len(p) == 0 {
		return 0, nil
	}
	if len(s.data) == 0 {
		return 0, s.endErr
	}
	m := len(p)
	if len(s.script) > 0 {
		if s.script[0] < m {
			m = s.script[0]
		}
		s.script = s.script[1:]
	}
	n := copy(p[:m], s.data)
	s.data = s.data[n:]
	if len(s.data) == 0 && s.ewl {
		return n, s.endErr
	}
	return n, nil
}
func (s *c17Body) Close() error { return nil }

func c17Ints(s string) []int {
	if s == "" {
		return nil
	}
	var out []int
	for _, x := range strings.Split(s, ",") {
		v, err := strconv.Atoi(x)
		if err != nil {
			panic("bad int list " + s)
		}
		out = append(out, v)
	}
	return out
}

type c17Entry struct {
	path  string
	limit int64
}

func c17Table(s string) []c17Entry {
	if s == "" {
		return nil
	}
	var out []c17Entry
	for _, e := range strings.Split(s, ",") {
		kv := strings.Split(e, "=")
		l, _ := strconv.ParseInt(kv[1], 10, 64)
		out = append(out, c17Entry{hx.UnHS(kv[0]), l})
	}
	return out
}

// c17Setup runs directive `name` on Casketfile text and returns the site config it filled.
func c17Setup(name, text string) (*httpserver.SiteConfig, error) {
	c := casket.NewTestController("http", text)
	act, err := casket.DirectiveAction("http", name)
	if err != nil {
		return nil, err
	}
	if err := act(c); err != nil {
		return nil, err
	}
	return httpserver.GetConfig(c), nil
}

func c17LimitsText(tb []c17Entry) string {
	var b strings.Builder
	b.WriteString("limits {\n")
	if len(tb) == 0 {
		b.WriteString(" header 8KB\n")
	}
	for _, e := range tb {
		if strings.ContainsAny(e.path, " \t") {
			// a scope name with a space is one quoted Casketfile token: body "/files/my docs" 4
			fmt.Fprintf(&b, " body \"%s\" %d\n", e.path, e.limit)
			continue
		}
		fmt.Fprintf(&b, " body %s %d\n", e.path, e.limit)
	}
	b.WriteString("}\n")
	return b.String()
}

func c17Chain(mids []httpserver.Middleware, inner httpserver.Handler) httpserver.Handler {
	h := inner
	for i := len(mids) - 1; i >= 0; i-- {
		h = mids[i](h)
	}
	return h
}

func c17ErrName(err error) string {
	switch err {
	case nil:
		return "-"
	case io.EOF:
		return "eof"
	case httpserver.ErrMaxBytesExceeded:
		return "big"
	case errC17Other:
		return "other"
	}
	return "unknown(" + err.Error() + ")"
}

func c17Request(path string, body io.ReadCloser, cl int64) *http.Request {
	r := httptest.NewRequest("POST", "http://c17.test/", nil)
	r.URL.Path = path
	r.Body = body
	r.ContentLength = cl
	return r
}

func c17ReaderEval(f []string) (string, []string) {
	if len(f) != 8 {
		return "bad-case", nil
	}
	cs := f[0] == "1"
	tb := c17Table(f[1])
	path := hx.UnHS(f[2])
	data := hx.UnH(f[3])
	body := &c17Body{data: append([]byte(nil), data...), script: c17Ints(f[4]), ewl: f[5] == "1", endErr: io.EOF}
	if f[6] == "other" {
		body.endErr = errC17Other
	}
	bufs := c17Ints(f[7])

	cfg, err := c17Setup("limits", c17LimitsText(tb))
	if err != nil {
		return "setup-error:" + err.Error(), nil
	}
	var trace []string
	total, sawBig, sawErr := 0, false, false
	inner := httpserver.HandlerFunc(func(w http.ResponseWriter, r *http.Request) (int, error) {
		for _, b := range bufs {
			p := make([]byte, b)
			n, err := r.Body.Read(p)
			trace = append(trace, hx.H(p[:n])+":"+c17ErrName(err))
			total += n
			if err != nil {
				sawErr = true
			}
			if err == httpserver.ErrMaxBytesExceeded {
				sawBig = true
			}
		}
		return 0, nil
	})
	h := c17Chain(cfg.Middleware(), inner)
	c17mu.Lock()
	old := httpserver.CaseSensitivePath
	httpserver.CaseSensitivePath = cs
	_, _ = h.ServeHTTP(httptest.NewRecorder(), c17Request(path, body, int64(len(data))))
	httpserver.CaseSensitivePath = old
	c17mu.Unlock()

	tags := []string{fmt.Sprintf("entries=%d", len(tb))}
	switch {
	case sawBig:
		tags = append(tags, "cut-at-limit")
	case sawErr:
		tags = append(tags, "within-limit")
	default:
		tags = append(tags, "trivial-no-end-reached")
	}
	if sawBig && total == len(data) {
		tags = append(tags, "odd-big-but-complete")
	}
	return strings.Join(trace, ","), tags
}

func c17MatchEval(f []string) (string, []string) {
	if len(f) != 3 {
		return "bad-case", nil
	}
	c17mu.Lock()
	old := httpserver.CaseSensitivePath
	httpserver.CaseSensitivePath = f[0] == "1"
	m := httpserver.Path(hx.UnHS(f[1])).Matches(hx.UnHS(f[2]))
	httpserver.CaseSensitivePath = old
	c17mu.Unlock()
	if m {
		return "1", []string{"match"}
	}
	return "0", []string{"no-match"}
}

func c17Dur(ns string) string {
	if ns == "0" {
		return "none"
	}
	return ns + "ns"
}

func c17ListenerEval(f []string) (string, []string) {
	if len(f) != 1 {
		return "bad-case", nil
	}
	var group []*httpserver.SiteConfig
	nset, nzero := 0, 0
	if f[0] != "" {
		for i, s := range strings.Split(f[0], ";") {
			p := strings.Split(s, "/")
			if len(p) != 5 {
				return "bad-case", nil
			}
			var tb strings.Builder
			names := []string{"read", "header", "write", "idle"}
			any := false
			for k, name := range names {
				if p[k] != "-" {
					fmt.Fprintf(&tb, " %s %s\n", name, c17Dur(p[k]))
					any = true
					nset++
					if p[k] == "0" {
						nzero++
					}
				}
			}
			c := casket.NewTestController("http", "")
			c.Key = fmt.Sprintf("site%d.test", i)
			cfg := httpserver.GetConfig(c)
			cfg.Addr = httpserver.Address{Original: c.Key, Host: c.Key, Port: "80"}
			run := func(name, text string) error {
				cc := casket.NewTestController("http", text)
				cc.Key = c.Key
				act, err := casket.DirectiveAction("http", name)
				if err != nil {
					return err
				}
				if err := act(cc); err != nil {
					return err
				}
				got := httpserver.GetConfig(cc)
				switch name {
				case "timeouts":
					cfg.Timeouts = got.Timeouts
				case "limits":
					cfg.Limits = got.Limits
				}
				return nil
			}
			if any {
				// the one-argument form sets all four at once
				text := "timeouts {\n" + tb.String() + "}\n"
				if p[0] != "-" && p[0] == p[1] && p[1] == p[2] && p[2] == p[3] {
					text = "timeouts " + c17Dur(p[0]) + "\n"
				}
				if err := run("timeouts", text); err != nil {
					return "setup-error:" + err.Error(), nil
				}
			}
			if p[4] != "0" {
				if err := run("limits", "limits {\n header "+p[4]+"\n}\n"); err != nil {
					return "setup-error:" + err.Error(), nil
				}
			}
			group = append(group, cfg)
		}
	}
	srv, err := httpserver.NewServer("127.0.0.1:0", group)
	if err != nil {
		return "setup-error:" + err.Error(), nil
	}
	s := srv.Server
	tags := []string{fmt.Sprintf("sites=%d", len(group))}
	switch {
	case nset == 0:
		tags = append(tags, "trivial-nothing-set")
	case nzero > 0:
		tags = append(tags, "explicit-none")
	default:
		tags = append(tags, "finite-only")
	}
	return fmt.Sprintf("%d %d %d %d %d", int64(s.ReadTimeout), int64(s.ReadHeaderTimeout), int64(s.WriteTimeout), int64(s.IdleTimeout), s.MaxHeaderBytes), tags
}

func c17ProxyEval(f []string) (string, []string) {
	if len(f) != 6 {
		return "bad-case", nil
	}
	cs := f[0] == "1"
	tb := c17Table(f[1])
	path := hx.UnHS(f[2])
	data := hx.UnH(f[3])
	chunked := f[4] == "chunked"
	buffered := f[5] == "1"

	var mu sync.Mutex
	var got []byte
	calls := 0
	backend := httptest.NewServer(http.HandlerFunc(func(w http.ResponseWriter, r *http.Request) {
		b, _ := io.ReadAll(r.Body)
		mu.Lock()
		got = append(got, b...)
		calls++
		mu.Unlock()
		w.WriteHeader(200)
		io.WriteString(w, "backend-ok")
	}))
	closed := false
	defer func() {
		if !closed {
			backend.Close()
		}
	}()

	lcfg, err := c17Setup("limits", c17LimitsText(tb))
	if err != nil {
		return "setup-error:" + err.Error(), nil
	}
	ptext := "proxy / " + backend.URL + "\n"
	if buffered {
		ptext = "proxy / " + backend.URL + " " + backend.URL + " {\n try_duration 20ms\n try_interval 1ms\n}\n"
	}
	pcfg, err := c17Setup("proxy", ptext)
	if err != nil {
		return "setup-error:" + err.Error(), nil
	}
	mids := append(append([]httpserver.Middleware{}, lcfg.Middleware()...), pcfg.Middleware()...)
	h := c17Chain(mids, httpserver.HandlerFunc(func(w http.ResponseWriter, r *http.Request) (int, error) {
		return 404, nil
	}))
	cl := int64(len(data))
	if chunked {
		cl = -1
	}
	var body io.ReadCloser = &c17Body{data: append([]byte(nil), data...), endErr: io.EOF}
	if cl == 0 {
		body = http.NoBody
	}
	rec := httptest.NewRecorder()
	c17mu.Lock()
	old := httpserver.CaseSensitivePath
	httpserver.CaseSensitivePath = cs
	status, herr := h.ServeHTTP(rec, c17Request(path, body, cl))
	if os.Getenv("VERIF_TRACE") != "" {
		fmt.Fprintf(os.Stderr, "c17.proxy: status=%d err=%v (%T)\n", status, herr, herr)
	}
	httpserver.CaseSensitivePath = old
	c17mu.Unlock()
	backend.Close() // waits for the backend handler to finish
	closed = true

	if status < 400 {
		if rec.Code == 200 && rec.Body.String() == "backend-ok" {
			status = 0
		} else {
			status = 1000 + rec.Code
		}
	}
	maxLimit := int64(0)
	for _, e := range tb {
		if e.limit > maxLimit {
			maxLimit = e.limit
		}
	}
	mu.Lock()
	defer mu.Unlock()
	// what reached the backend must be a prefix of the body; when the request was refused (413)
	// it must moreover be no longer than the largest configured limit (the judge knows which
	// limit applies only through the status, so this is the scope-independent part)
	bk := "ok"
	if !strings.HasPrefix(string(data), string(got)) {
		bk = "bad"
	}
	if status == 0 && string(got) != string(data) {
		bk = "bad"
	}
	if status == 413 && int64(len(got)) > maxLimit {
		bk = "bad"
	}
	tags := []string{f[4], "buffered=" + f[5]}
	if status == 413 {
		tags = append(tags, "refused")
	} else {
		tags = append(tags, "relayed")
	}
	return fmt.Sprintf("%d\t%s", status, bk), tags
}

// ---- generators ----

func c17Compositions(n int) [][]int {
	if n == 0 {
		return [][]int{{}}
	}
	var out [][]int
	for first := 1; first <= n; first++ {
		for _, rest := range c17Compositions(n - first) {
			out = append(out, append([]int{first}, rest...))
		}
	}
	return out
}

func c17Join(xs []int) string {
	s := make([]string, len(xs))
	for i, x := range xs {
		s[i] = strconv.Itoa(x)
	}
	return strings.Join(s, ",")
}

func c17Data(n int) string {
	b := make([]byte, n)
	for i := range b {
		b[i] = byte('a' + i%26)
	}
	return hx.H(b)
}

func c17Repeat(v, n int) []int {
	out := make([]int, n)
	for i := range out {
		out[i] = v
	}
	return out
}

func c17ReaderGen(g *hx.Gen) {
	maxLen := 6
	if g.Thorough() {
		maxLen = 9
	}
	root := hx.HS("/")
	// exhaustive: limit x body length x every chunking of the body x caller buffer sizes x end modes
	for limit := 1; limit <= 5; limit++ {
		for n := 0; n <= maxLen; n++ {
			for _, comp := range c17Compositions(n) {
				for buf := 1; buf <= 4; buf++ {
					for mode := 0; mode < 4; mode++ {
						if n > 6 && (mode != 0 && buf > 2) {
							continue
						}
						ee := "eof"
						if mode >= 2 {
							ee = "other"
						}
						g.Case("0", fmt.Sprintf("%s=%d", root, limit), root, c17Data(n), c17Join(comp), strconv.Itoa(mode&1), ee, c17Join(c17Repeat(buf, n+3)))
					}
				}
			}
		}
	}
	// one large buffer (io.ReadAll style), underlying reader unbounded
	for limit := 1; limit <= 12; limit++ {
		for n := 0; n <= 14; n++ {
			for mode := 0; mode < 2; mode++ {
				g.Case("0", fmt.Sprintf("%s=%d", root, limit), root, c17Data(n), "", strconv.Itoa(mode), "eof", "512,512,512")
			}
		}
	}
	// random: arbitrary scripts (zeros included), mixed buffer sizes (zero included), maybe too few reads
	N := 4000
	if g.Thorough() {
		N = 60000
	}
	for it := 0; it < N; it++ {
		limit := 1 + g.Rng.Intn(40)
		n := g.Rng.Intn(60)
		if g.Rng.Chance(1, 3) {
			n = limit - 2 + g.Rng.Intn(5)
			if n < 0 {
				n = 0
			}
		}
		sc := make([]int, g.Rng.Intn(12))
		for i := range sc {
			sc[i] = g.Rng.Intn(9)
			if g.Rng.Chance(1, 5) {
				sc[i] = 1 + g.Rng.Intn(50)
			}
		}
		bufs := make([]int, 1+g.Rng.Intn(30))
		for i := range bufs {
			bufs[i] = g.Rng.Intn(8)
			if g.Rng.Chance(1, 6) {
				bufs[i] = 1 + g.Rng.Intn(64)
			}
		}
		ee := "eof"
		if g.Rng.Chance(1, 4) {
			ee = "other"
		}
		g.Case("0", fmt.Sprintf("%s=%d", root, limit), root, c17Data(n), c17Join(sc), strconv.Itoa(g.Rng.Intn(2)), ee, c17Join(bufs))
	}
}

var c17ScopePaths = []string{"/", "/a", "/a/", "/a/b", "/A", "/ab", "a", "/a//b", "/a/./b", "/b", "/a/b/c", "/a/B", "a/b", "/a/b/", "/b/..", "/.", "/a/../a"}
var c17ReqPaths = []string{"/", "/a", "/a/", "/a/b", "/a/b/", "/a/b/c", "/ab", "/A/B", "/b", "/c", "/a//b", "/a/../b", "", "/a/b/../c", "/a/./b/c", "/abc", "/a/bc", "//a", "/..", "/a/b/c/d", "*", "a"}

func c17ScopeCase(g *hx.Gen, cs string, tb []string, req string, n int) {
	g.Case(cs, strings.Join(tb, ","), hx.HS(req), c17Data(n), "", "0", "eof", c17Join(c17Repeat(3, n/3+3)))
}

func c17ScopeGen(g *hx.Gen) {
	// exhaustive: every ordered pair / selected triples of scope paths with distinct limits x request paths;
	// the body (9 bytes) is longer than every limit, so the limit that was applied is visible
	np := len(c17ScopePaths)
	for i := 0; i < np; i++ {
		for _, req := range c17ReqPaths {
			c17ScopeCase(g, "0", []string{fmt.Sprintf("%s=%d", hx.HS(c17ScopePaths[i]), 3)}, req, 9)
		}
		for j := 0; j < np; j++ {
			for _, req := range c17ReqPaths {
				tb := []string{fmt.Sprintf("%s=%d", hx.HS(c17ScopePaths[i]), 2), fmt.Sprintf("%s=%d", hx.HS(c17ScopePaths[j]), 5)}
				c17ScopeCase(g, strconv.Itoa((i+j)%2), tb, req, 9)
			}
		}
	}
	N := 3000
	if g.Thorough() {
		N = 40000
	}
	alpha := []string{"/", "/", "a", "b", "A", ".", "..", "/a", "/b", "c"}
	for it := 0; it < N; it++ {
		k := 1 + g.Rng.Intn(6)
		if g.Rng.Chance(1, 8) {
			k = 7 + g.Rng.Intn(6) // up to 12 entries: sort.Sort is still an insertion sort
		}
		tb := make([]string, k)
		for i := range tb {
			var p string
			if g.Rng.Chance(2, 3) {
				p = hx.Pick(g.Rng, c17ScopePaths)
			} else {
				for s := 1 + g.Rng.Intn(5); s > 0; s-- {
					p += hx.Pick(g.Rng, alpha)
				}
			}
			tb[i] = fmt.Sprintf("%s=%d", hx.HS(p), 1+g.Rng.Intn(8))
		}
		var req string
		if g.Rng.Chance(1, 2) {
			req = hx.Pick(g.Rng, c17ReqPaths)
		} else {
			req = "/"
			for s := g.Rng.Intn(6); s > 0; s-- {
				req += hx.Pick(g.Rng, alpha)
			}
		}
		c17ScopeCase(g, strconv.Itoa(g.Rng.Intn(2)), tb, req, 6+g.Rng.Intn(5))
	}
}

func c17MatchGen(g *hx.Gen) {
	alpha := []byte("/.aA")
	maxLen := 5
	if g.Thorough() {
		maxLen = 6
	}
	var all []string
	var rec func(cur []byte)
	rec = func(cur []byte) {
		all = append(all, string(cur))
		if len(cur) == maxLen {
			return
		}
		for _, c := range alpha {
			rec(append(append([]byte(nil), cur...), c))
		}
	}
	rec(nil)
	bases := []string{"", "/", "/a", "/a/", "/A", "/a/a", "/a/.", "/a/..", "//a", "a", ".", "..", "/..", "/a//", "/./a", "/.a", "/a.", "/aa", "/a/./a/", "/a/../a"}
	for _, p := range all {
		for bi, b := range bases {
			g.Case(strconv.Itoa((len(p)+bi)%2), hx.HS(p), hx.HS(b))
		}
	}
	for it := 0; it < 3000; it++ {
		g.Case(strconv.Itoa(g.Rng.Intn(2)), hx.HS(hx.Pick(g.Rng, all)), hx.HS(hx.Pick(g.Rng, all)))
	}
	// wider alphabet (ASCII), including characters next to the A-Z range
	wide := []byte("/.aAzZ@[`{09-_~%b")
	for it := 0; it < 3000; it++ {
		mk := func() string {
			b := make([]byte, g.Rng.Intn(9))
			for i := range b {
				b[i] = wide[g.Rng.Intn(len(wide))]
			}
			return string(b)
		}
		p := mk()
		b := mk()
		if g.Rng.Chance(1, 2) && len(p) > 0 {
			b = strings.ToUpper(p[:g.Rng.Intn(len(p))])
		}
		g.Case(strconv.Itoa(g.Rng.Intn(2)), hx.HS(p), hx.HS(b))
	}
}

func c17ListenerGen(g *hx.Gen) {
	tvals := []string{"-", "0", "5", "9"}
	hvals := []string{"0", "1000", "2000"}
	// exhaustive over one field at a time for groups of 1..3 (thorough 4): every combination of unset/none/two finite values
	maxSites := 3
	if g.Thorough() {
		maxSites = 4
	}
	for n := 0; n <= maxSites; n++ {
		total := 1
		for i := 0; i < n; i++ {
			total *= len(tvals)
		}
		for code := 0; code < total; code++ {
			for field := 0; field < 4; field++ {
				sites := make([]string, n)
				c := code
				for i := 0; i < n; i++ {
					v := tvals[c%len(tvals)]
					c /= len(tvals)
					p := []string{"-", "-", "-", "-", hvals[(code+i)%3]}
					p[field] = v
					sites[i] = strings.Join(p, "/")
				}
				g.Case(strings.Join(sites, ";"))
			}
		}
	}
	N := 1500
	if g.Thorough() {
		N = 20000
	}
	rv := []string{"-", "-", "0", "1", "5", "9", "1000000000", "300000000000", "400000000000", "9223372036854775807"}
	for it := 0; it < N; it++ {
		n := 1 + g.Rng.Intn(5)
		sites := make([]string, n)
		for i := range sites {
			p := make([]string, 5)
			for k := 0; k < 4; k++ {
				p[k] = hx.Pick(g.Rng, rv)
			}
			if g.Rng.Chance(1, 5) {
				v := hx.Pick(g.Rng, rv[2:])
				p[0], p[1], p[2], p[3] = v, v, v, v
			}
			p[4] = hx.Pick(g.Rng, []string{"0", "0", "1", "512", "4096", "1048576"})
			sites[i] = strings.Join(p, "/")
		}
		g.Case(strings.Join(sites, ";"))
	}
}

func c17ProxyGen(g *hx.Gen) {
	root := hx.HS("/")
	maxLimit := 3
	if g.Thorough() {
		maxLimit = 5
	}
	for limit := 1; limit <= maxLimit; limit++ {
		for n := 0; n <= limit+2; n++ {
			for _, fr := range []string{"cl", "chunked"} {
				for _, buffered := range []string{"0", "1"} {
					g.Case("0", fmt.Sprintf("%s=%d", root, limit), root, c17Data(n), fr, buffered)
				}
			}
		}
	}
	// nested scopes
	tb := fmt.Sprintf("%s=%d,%s=%d", root, 6, hx.HS("/up"), 2)
	for _, req := range []string{"/", "/up", "/up/x", "/UP", "/upper", "/x/up"} {
		for _, n := range []int{2, 3, 6, 7} {
			g.Case("0", tb, hx.HS(req), c17Data(n), hx.Pick(g.Rng, []string{"cl", "chunked"}), strconv.Itoa(g.Rng.Intn(2)))
		}
	}
	// larger bodies around a limit beyond the transport's buffer sizes
	for _, limit := range []int{4096, 70000} {
		for _, d := range []int{-1, 0, 1, 5000} {
			g.Case("0", fmt.Sprintf("%s=%d", root, limit), root, c17Data(limit+d), hx.Pick(g.Rng, []string{"cl", "chunked"}), "0")
		}
	}
}

// ---- c17.wire: the limits middleware behind a real net/http server ----
//
// c17.wire  cs  table  path  data  framing  buf      out = <delivered hex> TAB <first error>
// A real client uploads the body with Content-Length or chunked framing over loopback; the
// innermost handler drains r.Body with `buf`-byte reads.  How net/http chunks the body is not
// under our control - by the theorems the delivered bytes and the final error do not depend on it.

func c17WireEval(f []string) (string, []string) {
	if len(f) != 6 {
		return "bad-case", nil
	}
	cs := f[0] == "1"
	tb := c17Table(f[1])
	path := hx.UnHS(f[2])
	data := hx.UnH(f[3])
	buf, _ := strconv.Atoi(f[5])
	if buf < 1 {
		return "bad-case", nil
	}
	cfg, err := c17Setup("limits", c17LimitsText(tb))
	if err != nil {
		return "setup-error:" + err.Error(), nil
	}
	var got []byte
	firstErr := "-"
	done := make(chan struct{})
	inner := httpserver.HandlerFunc(func(w http.ResponseWriter, r *http.Request) (int, error) {
		defer close(done)
		p := make([]byte, buf)
		for i := 0; i < len(data)+8; i++ {
			n, err := r.Body.Read(p)
			got = append(got, p[:n]...)
			if err != nil {
				firstErr = c17ErrName(err)
				break
			}
		}
		w.WriteHeader(200)
		return 0, nil
	})
	h := c17Chain(cfg.Middleware(), inner)
	c17mu.Lock()
	defer c17mu.Unlock()
	old := httpserver.CaseSensitivePath
	httpserver.CaseSensitivePath = cs
	defer func() { httpserver.CaseSensitivePath = old }()
	srv := httptest.NewServer(http.HandlerFunc(func(w http.ResponseWriter, r *http.Request) { h.ServeHTTP(w, r) }))
	defer srv.Close()
	var body io.Reader = strings.NewReader(string(data))
	if f[4] == "chunked" {
		body = struct{ io.Reader }{body} // hides the length: the client uses chunked transfer encoding
	}
	req, err := http.NewRequest("POST", srv.URL+path, body)
	if err != nil {
		return "bad-case", nil
	}
	tr := &http.Transport{}
	defer tr.CloseIdleConnections()
	res, err := tr.RoundTrip(req)
	if err == nil {
		io.Copy(io.Discard, res.Body)
		res.Body.Close()
	}
	<-done
	tag := "within-limit"
	if firstErr == "big" {
		tag = "cut-at-limit"
	}
	return hx.H(got) + "\t" + firstErr, []string{f[4], tag}
}

func c17WireGen(g *hx.Gen) {
	root := hx.HS("/")
	for _, limit := range []int{1, 3, 8} {
		for d := -2; d <= 2; d++ {
			n := limit + d
			if n < 0 {
				continue
			}
			for _, fr := range []string{"cl", "chunked"} {
				for _, buf := range []int{1, 2, 5, 4096} {
					g.Case("0", fmt.Sprintf("%s=%d", root, limit), root, c17Data(n), fr, strconv.Itoa(buf))
				}
			}
		}
	}
	tb := fmt.Sprintf("%s=%d,%s=%d,%s=%d", root, 9, hx.HS("/up"), 3, hx.HS("/up/big"), 6)
	for _, req := range []string{"/", "/up", "/up/x", "/up/big", "/up/big/y", "/UP/BIG"} {
		for _, n := range []int{2, 3, 4, 6, 7, 9, 10} {
			g.Case("0", tb, hx.HS(req), c17Data(n), hx.Pick(g.Rng, []string{"cl", "chunked"}), hx.Pick(g.Rng, []string{"1", "3", "512"}))
		}
	}
	for _, limit := range []int{5000, 70000} {
		for _, d := range []int{-1, 0, 1, 9000} {
			g.Case("0", fmt.Sprintf("%s=%d", root, limit), root, c17Data(limit+d), hx.Pick(g.Rng, []string{"cl", "chunked"}), hx.Pick(g.Rng, []string{"100", "4096", "32768"}))
		}
	}
}

// ---- c17.target: the wire spelling of the request path, parsed by the real net/http server ----
//
// c17.target  cs  table  target  data  framing  buf     out = <delivered hex> TAB <first error>  |  unreached TAB <status>
// `target` is written verbatim into the request line of a raw HTTP/1.1 request on a loopback
// connection (no client library re-spells it), so r.URL.Path / r.URL.RawPath are exactly what the
// server derives from that spelling: unreserved characters gratuitously percent-encoded
// (/upl%6Fad, /%75pload/x), scope names that must be escaped on the wire (/files/my%20docs/x),
// non-ASCII bytes raw or encoded, %2F, upper/lower-case hex digits.  The body limit that applies is
// the one of the longest scope matching the DECODED path, whatever the spelling.

func c17TargetEval(f []string) (string, []string) {
	if len(f) != 6 {
		return "bad-case", nil
	}
	cs := f[0] == "1"
	tb := c17Table(f[1])
	target := hx.UnHS(f[2])
	data := hx.UnH(f[3])
	buf, _ := strconv.Atoi(f[5])
	if buf < 1 || target == "" || strings.ContainsAny(target, " \r\n?#") {
		return "bad-case", nil
	}
	cfg, err := c17Setup("limits", c17LimitsText(tb))
	if err != nil {
		return "setup-error:" + err.Error(), nil
	}
	var mu sync.Mutex
	var got []byte
	firstErr := "-"
	reached := false
	sawTarget, sawPath := "", ""
	inner := httpserver.HandlerFunc(func(w http.ResponseWriter, r *http.Request) (int, error) {
		mu.Lock()
		defer mu.Unlock()
		reached = true
		sawTarget, sawPath = r.RequestURI, r.URL.Path
		p := make([]byte, buf)
		for i := 0; i < len(data)+8; i++ {
			n, err := r.Body.Read(p)
			got = append(got, p[:n]...)
			if err != nil {
				firstErr = c17ErrName(err)
				break
			}
		}
		w.Header().Set("Connection", "close")
		w.WriteHeader(200)
		return 0, nil
	})
	h := c17Chain(cfg.Middleware(), inner)
	c17mu.Lock()
	defer c17mu.Unlock()
	old := httpserver.CaseSensitivePath
	httpserver.CaseSensitivePath = cs
	defer func() { httpserver.CaseSensitivePath = old }()
	srv := httptest.NewServer(http.HandlerFunc(func(w http.ResponseWriter, r *http.Request) { h.ServeHTTP(w, r) }))
	defer srv.Close()
	conn, err := net.Dial("tcp", srv.Listener.Addr().String())
	if err != nil {
		return "setup-error:dial", nil
	}
	defer conn.Close()
	conn.SetDeadline(time.Now().Add(10 * time.Second))
	var req strings.Builder
	req.WriteString("POST " + target + " HTTP/1.1\r\nHost: c17.test\r\nConnection: close\r\n")
	if f[4] == "chunked" {
		req.WriteString("Transfer-Encoding: chunked\r\n\r\n")
		for i := 0; i < len(data); i += 3 {
			j := i + 3
			if j > len(data) {
				j = len(data)
			}
			fmt.Fprintf(&req, "%x\r\n%s\r\n", j-i, data[i:j])
		}
		req.WriteString("0\r\n\r\n")
	} else {
		fmt.Fprintf(&req, "Content-Length: %d\r\n\r\n%s", len(data), data)
	}
	if _, err := io.WriteString(conn, req.String()); err != nil {
		return "setup-error:write", nil
	}
	resp, _ := io.ReadAll(conn) // the server closes after its answer
	status := "0"
	if p := strings.Fields(string(resp)); len(p) >= 2 {
		status = p[1]
	}
	mu.Lock()
	defer mu.Unlock()
	if !reached {
		return "unreached\t" + status, []string{"trivial-refused-by-net/http"}
	}
	if sawTarget != target {
		return "setup-error:target-respelled:" + hx.HS(sawTarget), nil
	}
	tags := []string{f[4]}
	if firstErr == "big" {
		tags = append(tags, "cut-at-limit")
	} else {
		tags = append(tags, "within-limit")
	}
	if sawPath != target {
		tags = append(tags, "spelling-differs-from-decoded-path")
	} else {
		tags = append(tags, "plain-spelling")
	}
	return hx.H(got) + "\t" + firstErr, tags
}

// c17Spell writes path p the way a client may spell it on the wire: bytes that cannot appear raw in
// a request target are always percent-encoded, any other byte with probability 1/k (k = 0: never),
// hex digits in either case.
func c17Spell(g *hx.Gen, p string, k int) string {
	var b strings.Builder
	for i := 0; i < len(p); i++ {
		c := p[i]
		must := c <= 0x20 || c == 0x7f || c == '%' || c == '?' || c == '#'
		if must || (i > 0 && k > 0 && g.Rng.Chance(1, k)) { // the leading slash stays: origin-form targets
			if g.Rng.Chance(1, 2) {
				fmt.Fprintf(&b, "%%%02X", c)
			} else {
				fmt.Fprintf(&b, "%%%02x", c)
			}
			continue
		}
		b.WriteByte(c)
	}
	return b.String()
}

func c17TargetGen(g *hx.Gen) {
	root := hx.HS("/")
	fr := func() string { return hx.Pick(g.Rng, []string{"cl", "chunked"}) }
	bufp := func() string { return hx.Pick(g.Rng, []string{"1", "3", "512"}) }
	// the nested table of a typical site: specific scopes under a looser root scope
	tb := fmt.Sprintf("%s=%d,%s=%d,%s=%d,%s=%d", root, 9, hx.HS("/upload"), 3, hx.HS("/files/my docs"), 2, hx.HS("/caf\xc3\xa9"), 4)
	for _, t := range []string{
		"/upload", "/upload/a", "/upl%6Fad", "/upl%6fad/a", "/%75pload", "/%75pload/x", "/%75%70%6c%6f%61%64/x", "/upload%2Fa", "/upload%2fa",
		"/UPLOAD/a", "/%55PLOAD/a", "/up%6Coad", "/uploa%64x", "/other", "/%6Fther", "/", "/%2e/upload", "/x/%2e%2e/upload/y", "/x%2F..%2Fupload",
		"/files/my%20docs", "/files/my%20docs/x", "/files/my%20%64ocs/x", "/files/my+docs/x", "/files/my%2520docs/x", "/files/my", "/files%2Fmy%20docs%2Fx",
		"/caf%C3%A9", "/caf%c3%a9/x", "/caf\xc3\xa9", "/caf\xc3\xa9/x", "/c%61f\xc3%A9/x", "/cafe", "/upl%6", "/upl%zzad", "/%",
	} {
		for _, n := range []int{2, 3, 4, 5, 9, 10} {
			g.Case("0", tb, hx.HS(t), c17Data(n), fr(), bufp())
		}
	}
	// a single root-only limit: no spelling changes anything
	for _, t := range []string{"/", "/%75pload", "/a%20b"} {
		for _, n := range []int{2, 3, 4} {
			g.Case("0", fmt.Sprintf("%s=%d", root, 3), hx.HS(t), c17Data(n), fr(), bufp())
		}
	}
	// random nested tables x random spellings of a request path at or below one of the scopes
	N := 250
	if g.Thorough() {
		N = 3000
	}
	segs := []string{"a", "b", "up", "my docs", "A", "x~y", "caf\xc3\xa9", "50%", "a+b", "q?", "..", "."}
	for it := 0; it < N; it++ {
		k := 1 + g.Rng.Intn(4)
		var scopes []string
		ents := []string{}
		if g.Rng.Chance(3, 4) {
			ents = append(ents, fmt.Sprintf("%s=%d", root, 5+g.Rng.Intn(4)))
		}
		for i := 0; i < k; i++ {
			p := ""
			for s := 1 + g.Rng.Intn(3); s > 0; s-- {
				p += "/" + hx.Pick(g.Rng, segs[:10])
			}
			if g.Rng.Chance(1, 6) {
				p += "/"
			}
			scopes = append(scopes, p)
			ents = append(ents, fmt.Sprintf("%s=%d", hx.HS(p), 1+g.Rng.Intn(5)))
		}
		for i := len(ents) - 1; i > 0; i-- {
			j := g.Rng.Intn(i + 1)
			ents[i], ents[j] = ents[j], ents[i]
		}
		req := hx.Pick(g.Rng, scopes)
		switch g.Rng.Intn(4) {
		case 0:
			req += "/" + hx.Pick(g.Rng, segs)
		case 1:
			req += hx.Pick(g.Rng, segs) // same prefix, not the same segment
		case 2:
			req = "/" + hx.Pick(g.Rng, segs) + req
		}
		g.Case(strconv.Itoa(g.Rng.Intn(2)), strings.Join(ents, ","), hx.HS(c17Spell(g, req, g.Rng.Intn(5))), c17Data(4+g.Rng.Intn(7)), fr(), bufp())
	}
}

// ---- c17.e2e: the values end to end, on a real listener shared by co-hosted sites ----
//
// c17.e2e  group  action
//   group  = ';' list of r/h/w/i/hdr as in c17.listener, one site each, all on ONE listener started by casket.Start
//   action = fields            out = read header write idle maxHeaderBytes of the listener's http.Server
//          | bighdr:<n>        a request with an n-byte header field  -> out = status (431 = refused by net/http)
//          | stall             open a connection, send half a request line, wait -> out = closed | open (within 1.5 s)
// What http.Server does with the values is net/http's business (trusted); bighdr and stall are an
// EXPLORATION (small N, timing based for stall) that the strictest value is the one in force.

var c17E2EMu sync.Mutex

func c17E2EEval(f []string) (string, []string) {
	if len(f) != 2 {
		return "bad-case", nil
	}
	c17E2EMu.Lock()
	defer c17E2EMu.Unlock()
	dir, err := os.MkdirTemp("", "verif-c17-")
	if err != nil {
		return "setup-error:" + err.Error(), nil
	}
	defer os.RemoveAll(dir)
	os.WriteFile(dir+"/ok.txt", []byte("C17-OK\n"), 0o644)
	var text strings.Builder
	sites := strings.Split(f[0], ";")
	for i, s := range sites {
		p := strings.Split(s, "/")
		if len(p) != 5 {
			return "bad-case", nil
		}
		fmt.Fprintf(&text, "http://s%d.c17.test:0 {\n root %s\n", i, dir)
		names := []string{"read", "header", "write", "idle"}
		var tb strings.Builder
		for k, name := range names {
			if p[k] != "-" {
				fmt.Fprintf(&tb, "  %s %s\n", name, c17Dur(p[k]))
			}
		}
		if tb.Len() > 0 {
			text.WriteString(" timeouts {\n" + tb.String() + " }\n")
		}
		if p[4] != "0" {
			fmt.Fprintf(&text, " limits {\n  header %s\n }\n", p[4])
		}
		text.WriteString("}\n")
	}
	casket.Quiet = true
	log.SetOutput(io.Discard)
	inst, err := casket.Start(casket.CasketfileInput{Contents: []byte(text.String()), Filepath: "C17file", ServerTypeName: "http"})
	if err != nil {
		return "setup-error:" + err.Error(), nil
	}
	defer inst.Stop()
	var hs *httpserver.Server
	n := 0
	for _, s := range casket.VerifListenerServers(inst) {
		if x, ok := s.(*httpserver.Server); ok {
			hs = x
			n++
		}
	}
	if hs == nil || n != 1 {
		return fmt.Sprintf("setup-error:%d http servers for one listener", n), nil
	}
	sl := inst.Servers()
	if len(sl) == 0 || sl[0].Addr() == nil {
		return "setup-error:no listener", nil
	}
	addr := sl[0].Addr().String()
	if _, port, err := net.SplitHostPort(addr); err == nil {
		addr = "127.0.0.1:" + port
	}
	switch {
	case f[1] == "fields":
		s := hs.Server
		return fmt.Sprintf("%d %d %d %d %d", int64(s.ReadTimeout), int64(s.ReadHeaderTimeout), int64(s.WriteTimeout), int64(s.IdleTimeout), s.MaxHeaderBytes), []string{"fields", fmt.Sprintf("sites=%d", len(sites))}
	case strings.HasPrefix(f[1], "bighdr:"):
		size, _ := strconv.Atoi(f[1][7:])
		req, _ := http.NewRequest("GET", "http://"+addr+"/ok.txt", nil)
		req.Host = "s0.c17.test"
		req.Header.Set("X-Filler", strings.Repeat("x", size))
		tr := &http.Transport{}
		defer tr.CloseIdleConnections()
		res, err := tr.RoundTrip(req)
		if err != nil {
			return "error:" + strings.ReplaceAll(err.Error(), " ", "_"), []string{"bighdr"}
		}
		io.Copy(io.Discard, res.Body)
		res.Body.Close()
		return strconv.Itoa(res.StatusCode), []string{"bighdr"}
	case f[1] == "stall":
		conn, err := net.Dial("tcp", addr)
		if err != nil {
			return "error:dial", []string{"stall"}
		}
		defer conn.Close()
		conn.Write([]byte("GET /ok.txt HT")) // half a request line, then silence
		conn.SetReadDeadline(time.Now().Add(1500 * time.Millisecond))
		buf := make([]byte, 512)
		for {
			_, err := conn.Read(buf)
			if err == nil {
				continue // net/http may answer 408 before closing
			}
			if ne, ok := err.(net.Error); ok && ne.Timeout() {
				return "open", []string{"stall"}
			}
			return "closed", []string{"stall"}
		}
	}
	return "bad-case", nil
}

func c17E2EGen(g *hx.Gen) {
	groups := []string{
		"-/-/-/-/0;-/-/-/-/0",
		"5000000000/-/-/-/0;0/-/-/-/0",
		"-/300000000/-/-/2000;-/10000000000/-/-/20000",
		"-/10000000000/-/-/20000;-/300000000/-/-/2000",
		"9000000000/0/7000000000/-/0;3000000000/400000000/-/60000000000/3000;-/-/1000000000/0/9000",
		"0/0/0/0/0;0/0/0/0/50000",
		"-/-/-/-/1500;-/-/-/-/0;-/-/-/-/900",
	}
	for _, gr := range groups {
		g.Case(gr, "fields")
	}
	for it := 0; it < 10; it++ {
		n := 2 + g.Rng.Intn(2)
		var sites []string
		for i := 0; i < n; i++ {
			p := make([]string, 5)
			for k := 0; k < 4; k++ {
				p[k] = hx.Pick(g.Rng, []string{"-", "-", "0", "1000000000", "5000000000", "300000000000"})
			}
			p[4] = hx.Pick(g.Rng, []string{"0", "512", "4096", "1048576"})
			sites = append(sites, strings.Join(p, "/"))
		}
		g.Case(strings.Join(sites, ";"), "fields")
	}
	// the strictest header limit in action: 2000 resp. 20000 configured (net/http adds 4096 of slack)
	for _, gr := range []string{"-/-/-/-/2000;-/-/-/-/20000", "-/-/-/-/20000;-/-/-/-/2000", "-/-/-/-/20000;-/-/-/-/0;-/-/-/-/2000"} {
		for _, size := range []int{500, 12000, 40000} {
			g.Case(gr, fmt.Sprintf("bighdr:%d", size))
		}
	}
	g.Case("-/-/-/-/20000;-/-/-/-/30000", "bighdr:12000")
	// the strictest header timeout in action (0.3 s vs 10 s), and none
	g.Case("-/300000000/-/-/0;-/10000000000/-/-/0", "stall")
	g.Case("-/10000000000/-/-/0;-/300000000/-/-/0", "stall")
	g.Case("-/0/-/-/0;-/300000000/-/-/0", "stall")
	g.Case("0/10000000000/-/-/0;0/20000000000/-/-/0", "stall")
}

func init() {
	hx.Register(&hx.Stream{ID: "C17", Name: "c17.e2e", Gen: c17E2EGen, Eval: c17E2EEval, Serial: true})
	hx.Register(&hx.Stream{ID: "C17", Name: "c17.wire", Gen: c17WireGen, Eval: c17WireEval})
	hx.Register(&hx.Stream{ID: "C17", Name: "c17.target", Gen: c17TargetGen, Eval: c17TargetEval})
	hx.Register(&hx.Stream{ID: "C17", Name: "c17.reader", Gen: c17ReaderGen, Eval: c17ReaderEval})
	hx.Register(&hx.Stream{ID: "C17", Name: "c17.scope", Gen: c17ScopeGen, Eval: c17ReaderEval})
	hx.Register(&hx.Stream{ID: "C17", Name: "c17.match", Gen: c17MatchGen, Eval: c17MatchEval})
	hx.Register(&hx.Stream{ID: "C17", Name: "c17.listener", Gen: c17ListenerGen, Eval: c17ListenerEval})
	hx.Register(&hx.Stream{ID: "C17", Name: "c17.proxy", Gen: c17ProxyGen, Eval: c17ProxyEval})
}
