//go:build c06

package streams

import (
	"io"
	"net"
	"sync"
	"time"
)

// c06MemPipe is an in-memory, BUFFERED full-duplex connection pair.  net.Pipe is unbuffered, and a
// TLS 1.3 handshake with a HelloRetryRequest has a moment where both sides write (the dummy
// ChangeCipherSpec records) before either reads, which deadlocks on an unbuffered pipe.
// LocalAddr().String() is "pipe", as for net.Pipe.

type c06Half struct {
	mu     sync.Mutex
	cond   *sync.Cond
	buf    []byte
	closed bool
}

func newC06Half() *c06Half {
	h := &c06Half{}
	h.cond = sync.NewCond(&h.mu)
	return h
}

type c06MemConn struct {
	in, out *c06Half
}

func c06MemPipe() (net.Conn, net.Conn) {
	a, b := newC06Half(), newC06Half()
	c1, c2 := &c06MemConn{in: a, out: b}, &c06MemConn{in: b, out: a}
	// watchdog: a stuck handshake is cut after 5 s
	time.AfterFunc(5*time.Second, func() { c1.Close(); c2.Close() })
	return c1, c2
}

func (c *c06MemConn) Read(p []byte) (int, error) {
	h := c.in
	h.mu.Lock()
	defer h.mu.Unlock()
	for len(h.buf) == 0 && !h.closed {
		h.cond.Wait()
	}
	if len(h.buf) == 0 {
		return 0, io.EOF
	}
	n := copy(p, h.buf)
	h.buf = h.buf[n:]
	return n, nil
}

func (c *c06MemConn) Write(p []byte) (int, error) {
	h := c.out
	h.mu.Lock()
	defer h.mu.Unlock()
	if h.closed {
		return 0, io.ErrClosedPipe
	}
	h.buf = append(h.buf, p...)
	h.cond.Broadcast()
	return len(p), nil
}

func (c *c06MemConn) Close() error {
	for _, h := range []*c06Half{c.in, c.out} {
		h.mu.Lock()
		h.closed = true
		h.cond.Broadcast()
		h.mu.Unlock()
	}
	return nil
}

func (c *c06MemConn) LocalAddr() net.Addr                { return c06Addr("pipe") }
func (c *c06MemConn) RemoteAddr() net.Addr               { return c06Addr("pipe") }
func (c *c06MemConn) SetDeadline(t time.Time) error      { return nil }
func (c *c06MemConn) SetReadDeadline(t time.Time) error  { return nil }
func (c *c06MemConn) SetWriteDeadline(t time.Time) error { return nil }
