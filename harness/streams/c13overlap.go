//go:build c13

package streams

import (
	"bytes"
	"fmt"
	"io"
	"net/http"
	"runtime"
	"runtime/debug"
	"strconv"
	"strings"

	"github.com/tmpim/casket/caskethttp/fastcgi"

	"verifharness/hx"
)

// c13.overlap: several FastCGI responses in flight in one process, read in lock-step.
//
// Each client has its own connection, its own FCGIClient and its own scripted responder output.  The
// reads of the clients are interleaved by an explicit schedule on ONE goroutine, so the interleaving is
// exactly the one written in the case.  Whatever the clients share behind the scenes (package-level
// buffers, pools, …) is exercised in the most adverse deterministic way: the case runs with
// GOMAXPROCS(1), with the garbage collector held off, and starts from pools emptied by two collections,
// so that a sync.Pool hands back exactly the object that was Put last.
//
//   level r  the demultiplexing reader itself: step i.n = one Read(p), len(p) = n, of client i
//   level q  FCGIClient.Request: step i.n = Request of client i if it has not been made yet (the header
//            block is read through Request's bufio.Reader), otherwise one resp.Body.Read(p), len(p) = n
// After the schedule every client is read to its end, in order, with a buffer of `drain` bytes.  A
// reader that has reported an error is not read again (level q: its body is closed at that point).

// c13Lockstep runs f on the calling goroutine with one P, no GC in between and emptied pools.
func c13Lockstep(f func()) {
	prevProcs := runtime.GOMAXPROCS(1)
	defer runtime.GOMAXPROCS(prevProcs)
	runtime.GC() // sync.Pool: primary -> victim
	runtime.GC() // victim dropped: every pool is empty now
	prevGC := debug.SetGCPercent(-1)
	defer debug.SetGCPercent(prevGC)
	f()
}

type c13Step struct{ who, n int }

func c13ParseSched(s string) []c13Step {
	var out []c13Step
	if s == "" {
		return out
	}
	for _, it := range strings.Split(s, ",") {
		p := strings.SplitN(it, ".", 2)
		w, _ := strconv.Atoi(p[0])
		n := 0
		if len(p) > 1 {
			n, _ = strconv.Atoi(p[1])
		}
		out = append(out, c13Step{w, n})
	}
	return out
}

func c13FinName(err error) string {
	switch {
	case err == nil:
		return "none"
	case err == io.EOF:
		return "eof"
	case err == io.ErrUnexpectedEOF:
		return "ueof"
	case strings.Contains(err.Error(), "invalid header version"):
		return "badver"
	}
	return "other:" + strings.NewReplacer("\t", " ", ";", ",").Replace(err.Error())
}

type c13OvClient struct {
	raw []byte
	c   *fastcgi.FCGIClient
	// level r
	sr    io.Reader
	calls int
	// level q
	opened  bool
	openErr string
	resp    *http.Response
	// both
	got []byte
	fin string
}

func (k *c13OvClient) done() bool { return k.fin != "" || k.openErr != "" }

func (k *c13OvClient) readOnce(r io.Reader, p []byte) {
	n, err := r.Read(p)
	k.got = append(k.got, p[:n]...)
	k.calls++
	if err != nil {
		k.fin = c13FinName(err)
	}
}

func (k *c13OvClient) open() {
	k.opened = true
	resp, err := k.c.Request(map[string]string{}, nil)
	if err != nil {
		if _, ok := err.(*strconv.NumError); ok {
			k.openErr = "err:status"
		} else {
			k.openErr = "err:" + strings.NewReplacer("\t", " ").Replace(err.Error())
		}
		return
	}
	k.resp = resp
}

func (k *c13OvClient) show(level string) string {
	if level == "r" {
		fin := k.fin
		if fin == "" {
			fin = "none"
		}
		return fmt.Sprintf("out=%s;err=%s;fin=%s", hx.H(k.got), hx.H(k.c.VerifStderr()), fin)
	}
	if k.openErr != "" {
		return k.openErr
	}
	var keys []string
	for h := range k.resp.Header {
		keys = append(keys, h)
	}
	sortStrings(keys)
	var hs []string
	for _, h := range keys {
		for _, v := range k.resp.Header[h] {
			hs = append(hs, hx.HS(h)+":"+hx.HS(v))
		}
	}
	fin := k.fin
	if fin == "" {
		fin = "none"
	}
	return fmt.Sprintf("st=%d;tx=%s;h=%s;body=%s;fin=%s;stderr=%s", k.resp.StatusCode, hx.HS(k.resp.Status),
		strings.Join(hs, ","), hx.H(k.got), fin, hx.H(k.c.VerifStderr()))
}

func c13OverlapEval(f []string) (string, []string) {
	if len(f) < 6 || (len(f)-3)%3 != 0 {
		return "bad-case", nil
	}
	level, sched := f[0], c13ParseSched(f[1])
	drain, _ := strconv.Atoi(f[2])
	if drain < 1 {
		drain = 1
	}
	var cl []*c13OvClient
	for i := 3; i+2 < len(f); i += 3 {
		raw := hx.UnH(f[i+2])
		k := &c13OvClient{raw: raw}
		k.c = fastcgi.VerifNewClient(&fcgiRWC{r: bytes.NewReader(raw)}, 1)
		k.sr = k.c.VerifStreamReader()
		cl = append(cl, k)
	}
	maxP := drain
	for _, s := range sched {
		if s.n > maxP {
			maxP = s.n
		}
	}
	interleaved := 0
	out := c13Guard(func() string {
		c13Lockstep(func() {
			p := make([]byte, maxP)
			last := -1
			step := func(k *c13OvClient, n int) {
				if level == "r" {
					k.readOnce(k.sr, p[:n])
					return
				}
				if !k.opened {
					k.open()
					return
				}
				k.readOnce(k.resp.Body, p[:n])
				if k.fin != "" {
					k.resp.Body.Close() // what every caller does once the body is read
				}
			}
			for _, s := range sched {
				if s.who < 0 || s.who >= len(cl) || s.n < 1 || cl[s.who].done() {
					continue
				}
				if last >= 0 && last != s.who {
					interleaved++
				}
				last = s.who
				step(cl[s.who], s.n)
			}
			for _, k := range cl {
				if level == "q" && !k.opened {
					k.open()
				}
				// the model allows 2·len(raw)+2 further calls per reader
				for n := 0; !k.done() && n < 2*len(k.raw)+2; n++ {
					step(k, drain)
				}
			}
		})
		var vs []string
		for _, k := range cl {
			vs = append(vs, k.show(level))
		}
		return strings.Join(vs, "\t")
	})
	tags := []string{"level=" + level, "clients=" + strconv.Itoa(len(cl))}
	switch {
	case interleaved == 0:
		tags = append(tags, "trivial-not-interleaved")
	case interleaved < 3:
		tags = append(tags, "switches<3")
	default:
		tags = append(tags, "switches>=3")
	}
	big := false
	for _, k := range cl {
		recs, _ := fcgiSplit(k.raw)
		for _, rc := range recs {
			if len(rc.content) > 4096 {
				big = true
			}
		}
	}
	if big {
		tags = append(tags, "record>4096")
	}
	if strings.Contains(out, "PANIC") {
		tags = append(tags, "panic")
	}
	return out, tags
}

// c13OneRecord: the whole stdout in one record, the terminator, EndRequest
func c13OneRecord(stdout []byte, pad int) []byte {
	raw := fcgiRec(6, 1, stdout, pad)
	raw = append(raw, fcgiRec(6, 1, nil, 0)...)
	return append(raw, fcgiRec(3, 1, make([]byte, 8), 0)...)
}

// c13Records: stdout cut into records of `size` bytes
func c13Records(stdout []byte, size int) []byte {
	var raw []byte
	for len(stdout) > 0 {
		k := min(len(stdout), size)
		raw = append(raw, fcgiRec(6, 1, stdout[:k], 0)...)
		stdout = stdout[k:]
	}
	raw = append(raw, fcgiRec(6, 1, nil, 0)...)
	return append(raw, fcgiRec(3, 1, make([]byte, 8), 0)...)
}

func c13OverlapGen(g *hx.Gen) {
	r := g.Rng
	type cli struct{ out, err, raw []byte }
	emit := func(level string, sched []c13Step, drain int, cs []cli) {
		var ss []string
		for _, s := range sched {
			ss = append(ss, fmt.Sprintf("%d.%d", s.who, s.n))
		}
		f := []string{level, strings.Join(ss, ","), strconv.Itoa(drain)}
		for _, c := range cs {
			f = append(f, hx.H(c.out), hx.H(c.err), hx.H(c.raw))
		}
		g.Case(f...)
	}
	// distinct content per client: fillers whose seeds differ, so that no byte position agrees
	body := func(i, n int) []byte { return []byte(c13Filler(7*i+3, n)) }
	resp := func(i, n int) []byte {
		return append([]byte(fmt.Sprintf("Status: 20%d OK\r\nX-Client: c%d\r\n\r\n", i, i)), body(i, n)...)
	}

	// 1. the reader itself, tiny: two clients, one stdout record each, EVERY schedule of up to 4 reads
	//    (buffers smaller than the record, so that a remainder stays behind between calls)
	for _, plen := range []int{3, 8} {
		cs := []cli{{out: body(0, 11)}, {out: body(1, 11)}}
		for i := range cs {
			cs[i].raw = c13OneRecord(cs[i].out, i)
		}
		for l := 1; l <= 4; l++ {
			for m := 0; m < 1<<l; m++ {
				var sched []c13Step
				for b := 0; b < l; b++ {
					sched = append(sched, c13Step{(m >> b) & 1, plen})
				}
				emit("r", sched, plen, cs)
			}
		}
	}
	// 2. the reader itself: 2–3 clients, random conforming framings with stderr, random schedules
	n := 120
	if g.Thorough() {
		n = 3000
	}
	for i := 0; i < n; i++ {
		k := 2 + r.Intn(2)
		var cs []cli
		for j := 0; j < k; j++ {
			o := body(j, hx.Pick(r, []int{0, 1, 9, 40, 300}))
			e := []byte(strings.ToUpper(c13Filler(j, hx.Pick(r, []int{0, 0, 5, 30}))))
			cs = append(cs, cli{o, e, c13Frame(r, 1, o, e, hx.Pick(r, []int{0, 0, 1, 3, 8, 12, 15}))})
		}
		var sched []c13Step
		for l := r.Intn(14); l > 0; l-- {
			sched = append(sched, c13Step{r.Intn(k), hx.Pick(r, []int{1, 2, 5, 64, 4096})})
		}
		emit("r", sched, hx.Pick(r, []int{1, 7, 512, 4096}), cs)
	}
	// 3. the reader itself, records larger than the buffers callers use (4096: bufio.Reader, 32768: io.Copy)
	for _, c := range []struct{ rec, plen int }{{5000, 4096}, {40000, 32768}, {65535, 32768}, {65535, 4096}} {
		cs := []cli{{out: body(0, c.rec+100)}, {out: body(1, c.rec+100)}}
		for i := range cs {
			cs[i].raw = c13Records(cs[i].out, c.rec)
		}
		emit("r", []c13Step{{0, c.plen}, {1, c.plen}, {0, c.plen}, {1, c.plen}}, c.plen, cs)
	}
	// 4. Request: the response of client 0 arrives in a record larger than bufio's buffer; client 1 (and 2)
	//    are served in between.  Body reads of 512 … 32768 bytes.
	for _, c := range []struct{ k, blen, rec, plen int }{
		{2, 6000, 70000, 512}, {2, 20000, 70000, 4096}, {3, 6000, 70000, 1000}, {2, 50000, 40000, 32768},
		{2, 9000, 4500, 300}, {3, 70000, 65535, 32768}, {2, 3000, 70000, 100},
	} {
		var cs []cli
		for j := 0; j < c.k; j++ {
			o := resp(j, c.blen)
			e := []byte(nil)
			if j == 1 {
				e = []byte("PHP Notice: n\n")
			}
			raw := c13Records(o, c.rec)
			if len(e) > 0 {
				raw = append(fcgiRec(7, 1, e, 2), raw...)
			}
			cs = append(cs, cli{o, e, raw})
		}
		// open all, then one read each in turn; and: open 0, serve the others completely, then read 0
		var rr []c13Step
		for j := 0; j < c.k; j++ {
			rr = append(rr, c13Step{j, 1})
		}
		for t := 0; t < 3; t++ {
			for j := 0; j < c.k; j++ {
				rr = append(rr, c13Step{j, c.plen})
			}
		}
		emit("q", rr, c.plen, cs)
		one := []c13Step{{0, 1}}
		for j := 1; j < c.k; j++ {
			one = append(one, c13Step{j, 1})
			for t := 0; t < 2*len(cs[j].raw)/c.plen+4; t++ {
				one = append(one, c13Step{j, c.plen})
			}
		}
		emit("q", one, c.plen, cs)
	}
	// 5. Request: small random responses and framings, random schedules
	m := 60
	if g.Thorough() {
		m = 1500
	}
	for i := 0; i < m; i++ {
		k := 2 + r.Intn(2)
		var cs []cli
		for j := 0; j < k; j++ {
			o := resp(j, hx.Pick(r, []int{0, 5, 100, 5000}))
			e := []byte(strings.ToUpper(c13Filler(j, hx.Pick(r, []int{0, 0, 12}))))
			cs = append(cs, cli{o, e, c13Frame(r, 1, o, e, hx.Pick(r, []int{0, 0, 1, 12, 15}))})
		}
		var sched []c13Step
		for l := r.Intn(12); l > 0; l-- {
			sched = append(sched, c13Step{r.Intn(k), hx.Pick(r, []int{1, 16, 512, 4096})})
		}
		emit("q", sched, hx.Pick(r, []int{64, 512, 32768}), cs)
	}
}

// c13RegisterOverlap is called first by the init of c13.go, so that these deterministic streams run (and
// report) before the parallel ones.
func c13RegisterOverlap() {
	hx.Register(&hx.Stream{ID: "C13", Name: "c13.overlap", Gen: c13OverlapGen, Eval: c13OverlapEval, Serial: true})
}
