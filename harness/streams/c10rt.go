//go:build c10

package streams

import (
	"fmt"
	"sort"
	"strings"

	"verifharness/hx"
)

// c10.rt: write a random configuration out (random layout, random split into snippets and imported
// files) and remember exactly which tokens were written where.
//
// What "well formed" excludes (each is a documented quirk of the parser, see docs/C10.md):
//   - a token that is exactly "{" or "}" other than the structural ones, "import" first on a line,
//     a key ending in ",", a lone key of the form "(x)"
//   - a quoted token whose text has a backslash directly before a double quote or at its end
//   - a snippet used inside a sub-block whose first token is "import"

type c10Tok struct {
	text string // as written (before environment replacement)
	file string // "" = main
	line int
}

type c10Line struct {
	toks  []*c10Tok
	depth int
}

type c10Dirv struct {
	name  *c10Tok
	lines []c10Line // lines[0] = the directive's own line; further lines = its sub-block including the closing brace line
}

type c10Blk struct {
	keys   []*c10Tok // written text includes the trailing comma where one was written
	open   *c10Tok   // nil for the brace-less form
	close  *c10Tok
	dirs   []*c10Dirv
	breaks []bool // breaks[i]: key i+1 starts a new line (needs the comma on key i)
}

// an item of a source file: a logical line, or an import of another source
type c10Item struct {
	line *c10Line
	imp  string // name to import
}

type c10Source struct {
	name    string // "" main, "sN" snippet, otherwise file name
	snippet bool
	items   []c10Item
}

var c10Args = []string{"arg", "a b", "x\ny", "say \"hi\"", "C:\\php\\x.exe", "a#b", "", "\u00e9\u20ac", "\"lead", "tr\"ail", "a{b", "}x", "import", "k,", "(p)",
	"{$CV_A}", "pre{%CV_A%}post", "{$CV_EMPTY}", "tab\there", "cr\rlf", "nb\u00a0sp", "\\\\", "a\\b c", "1", "/path/to/x", "*.php", "{$CV_UNSET}x", "#", "\"", "  "}
var c10Names = []string{"dir1", "dir2", "dir3", "root", "log", "tls", "{$CV_A}", "header", "dir1"}
var c10Keys = []string{"host", "host2:80", "http://a.example", "localhost:2015", "*.example.com", "{$CV_A}:80", ":443", "[::1]:80", "a/b", "q uoted", "b{%CV_EMPTY%}"}

func c10Expand(s string) string {
	return strings.NewReplacer("{$CV_A}", "alpha", "{%CV_A%}", "alpha", "{$CV_EMPTY}", "", "{%CV_EMPTY%}", "", "{$CV_UNSET}", "").Replace(s)
}

func c10NeedsQuote(s string) bool {
	if s == "" || s[0] == '"' {
		return true
	}
	for _, r := range s {
		switch r {
		case ' ', '\t', '\n', '\r', '\v', '\f', '#', 0x85, 0xa0, 0x2003, 0x3000:
			return true
		}
	}
	return false
}

// c10Quotable: can the text be written between double quotes?
func c10Quotable(s string) bool {
	for i := 0; i < len(s); i++ {
		if s[i] == '\\' {
			if i+1 >= len(s) || s[i+1] == '"' {
				return false
			}
			i++
		}
	}
	return true
}

func c10Quote(s string) string {
	var sb strings.Builder
	sb.WriteByte('"')
	for i := 0; i < len(s); i++ {
		switch {
		case s[i] == '"':
			sb.WriteString("\\\"")
		case s[i] == '\\':
			sb.WriteByte('\\')
			i++
			sb.WriteByte(s[i])
		default:
			sb.WriteByte(s[i])
		}
	}
	sb.WriteByte('"')
	return sb.String()
}

type c10Writer struct {
	r    *hx.Rng
	file string
	sb   strings.Builder
	line int
	crlf bool
}

func (w *c10Writer) nl() {
	if w.crlf {
		w.sb.WriteString("\r\n")
	} else {
		w.sb.WriteString("\n")
	}
	w.line++
}

func (w *c10Writer) noise() {
	for w.r.Chance(1, 5) {
		switch w.r.Intn(3) {
		case 0:
			w.sb.WriteString(hx.Pick(w.r, []string{"", "  ", "\t"}))
		case 1:
			w.sb.WriteString(hx.Pick(w.r, []string{"# a comment", "#{", "\t# } \"quoted\" import x", "#"}))
		default:
		}
		w.nl()
	}
}

func (w *c10Writer) writeLine(l *c10Line) {
	w.noise()
	ind := hx.Pick(w.r, []string{"", " ", "\t", "    "})
	for i := 0; i < l.depth; i++ {
		w.sb.WriteString(ind)
	}
	for i, t := range l.toks {
		if i > 0 {
			w.sb.WriteString(hx.Pick(w.r, []string{" ", " ", " ", "\t", "  ", " \t "}))
		}
		t.file, t.line = w.file, w.line
		if c10NeedsQuote(t.text) || (w.r.Chance(1, 6) && c10Quotable(t.text) && t.text != "{" && t.text != "}") {
			w.sb.WriteString(c10Quote(t.text))
		} else {
			w.sb.WriteString(t.text)
		}
		w.line += strings.Count(t.text, "\n")
	}
	if w.r.Chance(1, 6) {
		w.sb.WriteString(hx.Pick(w.r, []string{" ", "\t", " # trailing comment", " #}", "  #\"", " # import f0"}))
	}
	w.nl()
}

func c10T(s string) *c10Tok { return &c10Tok{text: s} }

func c10GenArg(r *hx.Rng) string {
	if r.Chance(1, 2) {
		return hx.Pick(r, c10Args)
	}
	n := 1 + r.Intn(6)
	var sb strings.Builder
	for i := 0; i < n; i++ {
		sb.WriteString(hx.Pick(r, []string{"a", "b", "z", "0", "-", ".", "/", ":", "=", "\"", "\\x", "{", "}", "\u00e9", "(", ")", ",", "*"}))
	}
	s := sb.String()
	if s == "{" || s == "}" {
		return "x"
	}
	return s
}

func c10GenSubLines(r *hx.Rng, depth int, max int) []c10Line {
	var out []c10Line
	n := r.Intn(max + 1)
	for i := 0; i < n; i++ {
		k := 1 + r.Intn(3)
		l := c10Line{depth: depth}
		for j := 0; j < k; j++ {
			a := c10GenArg(r)
			if j == 0 && (a == "import" || c10Expand(a) == "import") {
				a = "imported"
			}
			l.toks = append(l.toks, c10T(a))
		}
		if depth < 4 && r.Chance(1, 5) {
			l.toks = append(l.toks, c10T("{"))
			out = append(out, l)
			out = append(out, c10GenSubLines(r, depth+1, 2)...)
			out = append(out, c10Line{depth: depth, toks: []*c10Tok{c10T("}")}})
			continue
		}
		out = append(out, l)
	}
	return out
}

func c10GenBlock(r *hx.Rng, braces bool) *c10Blk {
	b := &c10Blk{}
	nk := 1 + r.Intn(3)
	for i := 0; i < nk; i++ {
		k := hx.Pick(r, c10Keys)
		if i < nk-1 && r.Chance(1, 2) {
			b.keys = append(b.keys, c10T(k+","))
			b.breaks = append(b.breaks, r.Chance(1, 2))
		} else {
			b.keys = append(b.keys, c10T(k))
			b.breaks = append(b.breaks, false)
		}
	}
	if braces {
		b.open, b.close = c10T("{"), c10T("}")
	}
	nd := r.Intn(5)
	for i := 0; i < nd; i++ {
		d := &c10Dirv{name: c10T(hx.Pick(r, c10Names))}
		l := c10Line{depth: 1, toks: []*c10Tok{d.name}}
		na := r.Intn(4)
		for j := 0; j < na; j++ {
			l.toks = append(l.toks, c10T(c10GenArg(r)))
		}
		if r.Chance(1, 3) {
			l.toks = append(l.toks, c10T("{"))
			d.lines = append(d.lines, l)
			d.lines = append(d.lines, c10GenSubLines(r, 2, 3)...)
			d.lines = append(d.lines, c10Line{depth: 1, toks: []*c10Tok{c10T("}")}})
		} else {
			d.lines = append(d.lines, l)
		}
		b.dirs = append(b.dirs, d)
	}
	return b
}

// c10Build lays the blocks out over sources and returns main text, files and the expected answer.
func c10Build(r *hx.Rng, blocks []*c10Blk) (string, map[string]string, string) {
	sources := map[string]*c10Source{}
	order := []string{} // snippet definition order / file creation order
	nsrc := 0
	newSource := func(snippet bool) *c10Source {
		nsrc++
		s := &c10Source{snippet: snippet}
		if snippet {
			s.name = fmt.Sprintf("s%d", nsrc)
		} else {
			s.name = fmt.Sprintf("f%d%s", nsrc, hx.Pick(r, []string{"", ".conf", ".c"}))
		}
		sources[s.name] = s
		order = append(order, s.name)
		return s
	}
	// wrap: move a run of items into a new source (recursively, limited depth)
	var wrap func(items []c10Item, depth int, nested bool, keepFirst bool) []c10Item
	wrap = func(items []c10Item, depth int, nested bool, keepFirst bool) []c10Item {
		if len(items) == 0 || depth > 2 || !r.Chance(2, 5) {
			return items
		}
		i := r.Intn(len(items))
		if keepFirst { // documented quirk: a snippet used inside a sub-block must not begin with an import
			if len(items) < 2 {
				return items
			}
			i = 1 + r.Intn(len(items)-1)
		}
		j := i + 1 + r.Intn(len(items)-i)
		run := items[i:j]
		snippet := r.Chance(1, 2)
		src := newSource(snippet)
		src.items = wrap(append([]c10Item{}, run...), depth+1, nested, snippet && nested)
		out := append([]c10Item{}, items[:i]...)
		out = append(out, c10Item{imp: src.name})
		out = append(out, items[j:]...)
		return out
	}
	main := &c10Source{}
	var mainItems []c10Item
	for _, b := range blocks {
		var blockItems []c10Item
		// key lines
		cur := &c10Line{}
		for i, k := range b.keys {
			cur.toks = append(cur.toks, k)
			if b.breaks[i] {
				blockItems = append(blockItems, c10Item{line: cur})
				cur = &c10Line{}
			}
		}
		if b.open != nil {
			cur.toks = append(cur.toks, b.open)
		}
		blockItems = append(blockItems, c10Item{line: cur})
		// directives: whole directives may move; lines inside a sub-block may move too
		var dirItems []c10Item
		for _, d := range b.dirs {
			if len(d.lines) > 2 {
				inner := make([]c10Item, 0, len(d.lines))
				for k := 1; k < len(d.lines)-1; k++ {
					inner = append(inner, c10Item{line: &d.lines[k]})
				}
				// keep brace-balanced runs only: move the whole interior or nothing when it nests further
				balanced := true
				for k := 1; k < len(d.lines)-1; k++ {
					last := d.lines[k].toks[len(d.lines[k].toks)-1].text
					if last == "{" || d.lines[k].toks[0].text == "}" {
						balanced = false
					}
				}
				if balanced {
					inner = wrap(inner, 1, true, false)
				} else if r.Chance(1, 4) {
					src := newSource(r.Chance(1, 2))
					src.items = inner
					inner = []c10Item{{imp: src.name}}
				}
				dirItems = append(dirItems, c10Item{line: &d.lines[0]})
				dirItems = append(dirItems, inner...)
				dirItems = append(dirItems, c10Item{line: &d.lines[len(d.lines)-1]})
			} else {
				for k := range d.lines {
					dirItems = append(dirItems, c10Item{line: &d.lines[k]})
				}
			}
		}
		// runs of whole directives: only cut at directive boundaries; simplest faithful way is to wrap
		// when every directive is a single line
		single := true
		for _, d := range b.dirs {
			if len(d.lines) != 1 {
				single = false
			}
		}
		if single {
			dirItems = wrap(dirItems, 0, false, false)
		} else if r.Chance(1, 3) && len(dirItems) > 0 {
			src := newSource(r.Chance(1, 2))
			src.items = dirItems
			dirItems = []c10Item{{imp: src.name}}
		}
		blockItems = append(blockItems, dirItems...)
		if b.close != nil {
			blockItems = append(blockItems, c10Item{line: &c10Line{toks: []*c10Tok{b.close}}})
		}
		// a whole block may live in an imported file (address position import)
		if b.open != nil && r.Chance(1, 5) {
			src := newSource(false)
			src.items = blockItems
			blockItems = []c10Item{{imp: src.name}}
		}
		mainItems = append(mainItems, blockItems...)
	}
	main.items = mainItems

	files := map[string]string{}
	render := func(s *c10Source, w *c10Writer) {
		for _, it := range s.items {
			if it.imp != "" {
				l := &c10Line{depth: 1, toks: []*c10Tok{c10T("import"), c10T(it.imp)}}
				w.writeLine(l)
			} else {
				w.writeLine(it.line)
			}
		}
	}
	// files first (their positions do not depend on main)
	for _, n := range order {
		s := sources[n]
		if s.snippet {
			continue
		}
		w := &c10Writer{r: r, file: n, line: 1, crlf: r.Chance(1, 6)}
		if r.Chance(1, 8) {
			w.sb.WriteString("\ufeff")
		}
		render(s, w)
		txt := w.sb.String()
		if r.Chance(1, 5) {
			txt = strings.TrimRight(txt, "\r\n")
		}
		files[n] = txt
	}
	// main: snippet definitions (in creation order reversed so that inner ones are defined before use is irrelevant:
	// a snippet only has to be defined before the import that uses it is reached, and all are defined first)
	w := &c10Writer{r: r, file: "", line: 1, crlf: r.Chance(1, 6)}
	if r.Chance(1, 8) {
		w.sb.WriteString("\ufeff")
	}
	for _, n := range order {
		s := sources[n]
		if !s.snippet {
			continue
		}
		w.writeLine(&c10Line{toks: []*c10Tok{c10T("(" + n + ")"), c10T("{")}})
		render(s, w)
		w.writeLine(&c10Line{toks: []*c10Tok{c10T("}")}})
	}
	render(main, w)
	mainTxt := w.sb.String()
	if r.Chance(1, 5) {
		mainTxt = strings.TrimRight(mainTxt, "\r\n")
	}

	// expected answer
	var sb strings.Builder
	sb.WriteString("ok")
	for _, b := range blocks {
		sb.WriteByte('|')
		for i, k := range b.keys {
			if i > 0 {
				sb.WriteByte(',')
			}
			sb.WriteString(hx.HS(strings.TrimSuffix(c10Expand(k.text), ",")))
		}
		by := map[string][]*c10Tok{}
		for _, d := range b.dirs {
			n := c10Expand(d.name.text)
			for li, l := range d.lines {
				for ti, t := range l.toks {
					if li == 0 && ti == 0 {
						by[n] = append(by[n], t) // the directive token keeps its raw text
					} else {
						by[n] = append(by[n], &c10Tok{text: c10Expand(t.text), file: t.file, line: t.line})
					}
				}
			}
		}
		var names []string
		for n := range by {
			names = append(names, hx.HS(n))
		}
		sort.Strings(names)
		for _, hn := range names {
			sb.WriteByte(';')
			sb.WriteString(hn)
			sb.WriteByte('=')
			for i, t := range by[hx.UnHS(hn)] {
				if i > 0 {
					sb.WriteByte(',')
				}
				fmt.Fprintf(&sb, "%s:%d:%s", t.file, t.line, hx.HS(t.text))
			}
		}
	}
	return mainTxt, files, sb.String()
}

func c10RtGen(g *hx.Gen) {
	env := c10EnvField(c10EnvTable)
	N := 12000
	if g.Thorough() {
		N = 120000
	}
	for i := 0; i < N; i++ {
		r := g.Rng
		nb := 1 + r.Intn(3)
		braces := nb > 1 || r.Chance(2, 3)
		var blocks []*c10Blk
		for k := 0; k < nb; k++ {
			blocks = append(blocks, c10GenBlock(r, braces))
		}
		main, files, want := c10Build(r, blocks)
		g.Case("-", env, c10FSField(files), hx.HS(main), hx.HS(want))
	}
}
