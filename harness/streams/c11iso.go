//go:build c11

package streams

import (
	"bufio"
	"io"
	"os"
	"os/exec"
	"runtime"
	"strconv"
	"strings"
	"sync"
	"time"
)

// Process isolation for the search streams c11.setup and c11.reload.
//
// recover() only sees a panic of the goroutine that runs the setup function.  A directive that starts a goroutine
// while it is being set up (proxy: the health check worker) and whose goroutine panics, a `fatal error` of the runtime
// (stack overflow, concurrent map writes, out of memory) or an os.Exit in a setup body take the whole process down —
// which is the worst way a setup can fail to be total, and the one a harness that lives in the same process can only
// report by dying itself (the check then has no failing input to show).  And a setup that hangs keeps its goroutine,
// the locks it holds and the memory it allocates for the rest of the run.
//
// So the real code runs in a WORKER: a child process of the harness (the same binary, `vharness eval`, told by the
// environment variable C11_WORKER_TMP that it is the worker) that stays alive from case to case — process-wide state
// (caches, registries) accumulates exactly as it did in-process.  The parent sends one case line and waits for one
// answer line:
//   - the worker answers: that is the case's answer; after a TIMEOUT answer the worker is killed, so the hung
//     goroutine, the lock it holds and whatever it keeps allocating go away and the next case starts in a fresh process;
//   - the worker dies: the case is evaluated once more in a fresh worker; if that one dies as well the answer is
//     PANIC:process:<first "panic:" / "fatal error:" line of its stderr> (a replayable case), otherwise the death was
//     the late effect of an earlier case and the answer says so;
//   - nothing within c11ProcessBudget: the worker is killed, TIMEOUT:process.
//
// c11.setup uses c11Slots workers side by side.  Which worker a generated case goes to and when is fixed by the
// generator (case number i: worker i mod c11Slots, as that worker's (i div c11Slots)-th case), not by the scheduler, so
// that every worker sees the same sequence of cases in every run.  c11.reload, replays and corpus cases use worker 0.
const c11WorkerEnv = "C11_WORKER_TMP"
const c11AnswerMark = "\x01c11\x01"
const c11ProcessBudget = 40 * time.Second

func c11IsWorker() bool { return os.Getenv(c11WorkerEnv) != "" }

// c11WorkerAnswer is what the worker prints for one case: the marker (anything casket prints on stdout by itself is
// skipped by the parent), the answer, the tags.
func c11WorkerAnswer(out string, tags []string) string {
	return "\n" + c11AnswerMark + strings.NewReplacer("\n", "\\n", "\r", "\\r", "\t", " ").Replace(out) + "\t" + strings.Join(tags, ",")
}

// c11Settle: when the case left new goroutines behind, give them a moment to run into whatever they run into
// while the case is still the current one.
func c11Settle(before int) {
	for i := 0; i < 4 && runtime.NumGoroutine() > before; i++ {
		runtime.Gosched()
	}
}

type c11Tail struct {
	mu    sync.Mutex
	first string // first line that names a crash
	last  []string
}

func (t *c11Tail) add(line string) {
	t.mu.Lock()
	defer t.mu.Unlock()
	if t.first == "" && (strings.HasPrefix(line, "panic: ") || strings.HasPrefix(line, "fatal error: ")) {
		t.first = line
	}
	t.last = append(t.last, line)
	if len(t.last) > 40 {
		t.last = t.last[len(t.last)-40:]
	}
}

func (t *c11Tail) crash() string {
	t.mu.Lock()
	defer t.mu.Unlock()
	if t.first != "" {
		return t.first
	}
	return "the worker process ended without a panic message"
}

type c11Worker struct {
	cmd     *exec.Cmd
	in      io.WriteCloser
	lines   chan string
	tail    *c11Tail
	errDone chan struct{}
}

const c11Slots = 4

// one worker process and its queue discipline
type c11Slot struct {
	mu   sync.Mutex
	cond *sync.Cond
	next int // the turn (position in this worker's sequence of generated cases) that may run now
	w    *c11Worker
	grew map[int]int // by how many goroutines the cases grew the worker: histogram
}

var c11SlotTab = func() (t [c11Slots]*c11Slot) {
	for i := range t {
		t[i] = &c11Slot{grew: map[int]int{}}
		t[i].cond = sync.NewCond(&t[i].mu)
	}
	return
}()

// case line -> number of the case in the generator's order (filled by the generator, consumed by the evaluation)
var (
	c11OrderMu sync.Mutex
	c11Order   = map[string]int{}
)

func c11Spawn() (*c11Worker, error) {
	exe, err := os.Executable()
	if err != nil {
		return nil, err
	}
	cmd := exec.Command(exe, "eval")
	cmd.Env = append(os.Environ(), c11WorkerEnv+"="+c11Tmp)
	in, err := cmd.StdinPipe()
	if err != nil {
		return nil, err
	}
	so, err := cmd.StdoutPipe()
	if err != nil {
		return nil, err
	}
	se, err := cmd.StderrPipe()
	if err != nil {
		return nil, err
	}
	if err := cmd.Start(); err != nil {
		return nil, err
	}
	w := &c11Worker{cmd: cmd, in: in, lines: make(chan string, 4), tail: &c11Tail{}, errDone: make(chan struct{})}
	go func() {
		sc := bufio.NewScanner(so)
		sc.Buffer(make([]byte, 1<<16), 1<<26)
		for sc.Scan() {
			// casket prints warnings on stdout, some without a line end: the mark may come after one
			if l := sc.Text(); strings.Contains(l, c11AnswerMark) {
				w.lines <- l[strings.Index(l, c11AnswerMark)+len(c11AnswerMark):]
			}
		}
		close(w.lines)
	}()
	go func() {
		sc := bufio.NewScanner(se)
		sc.Buffer(make([]byte, 1<<16), 1<<26)
		for sc.Scan() {
			w.tail.add(sc.Text())
		}
		close(w.errDone)
	}()
	return w, nil
}

func (w *c11Worker) kill() {
	w.in.Close()
	if w.cmd.Process != nil {
		w.cmd.Process.Kill()
	}
	go func() {
		for range w.lines {
		}
	}()
	select {
	case <-w.errDone:
	case <-time.After(2 * time.Second):
	}
	w.cmd.Wait()
}

func (sl *c11Slot) killWorker() {
	if sl.w != nil {
		sl.w.kill()
		sl.w = nil
	}
}

func c11KillWorkers() {
	for _, sl := range c11SlotTab {
		sl.mu.Lock()
		sl.killWorker()
		sl.next = 0
		sl.mu.Unlock()
	}
	c11OrderMu.Lock()
	c11Order = map[string]int{}
	c11OrderMu.Unlock()
}

const (
	c11Answered = iota
	c11Died
	c11Silent
	c11NoWorker
)

// ask sends one case line to the slot's worker (starting one if there is none).  The slot is locked by the caller.
func (sl *c11Slot) ask(line string) (ans string, status int, crash string) {
	if sl.w == nil {
		w, err := c11Spawn()
		if err != nil {
			return "", c11NoWorker, err.Error()
		}
		sl.w = w
	}
	w := sl.w
	died := func() (string, int, string) {
		select {
		case <-w.errDone:
		case <-time.After(2 * time.Second):
		}
		msg := w.tail.crash()
		sl.killWorker()
		return "", c11Died, msg
	}
	if _, err := io.WriteString(w.in, line+"\n"); err != nil {
		return died() // gone already: killed by a goroutine an earlier case left behind
	}
	select {
	case l, ok := <-w.lines:
		if !ok {
			return died()
		}
		return l, c11Answered, ""
	case <-time.After(c11ProcessBudget):
		sl.killWorker()
		return "", c11Silent, ""
	}
}

// per stream and directive: how many cases ended in TIMEOUT.  Every hang costs a watchdog period; once a directive
// has shown maxTimeouts of them in a stream the rest of its cases in that stream are skipped (answer "total" in the
// search streams, SKIPPED in a tie; tagged trivial-skipped-…: they were not evaluated), so that a directive that hangs on a whole family of inputs cannot
// stall the run.
var (
	c11TimeoutsMu sync.Mutex
	c11Timeouts   = map[string]int{}
)

func c11TimeoutCount(key string, add int) int {
	c11TimeoutsMu.Lock()
	defer c11TimeoutsMu.Unlock()
	c11Timeouts[key] += add
	return c11Timeouts[key]
}

// A goroutine that a setup started may panic a moment AFTER the worker has answered the case (the scheduler decides),
// and the death would be seen while the next case runs.  The worker reports by how many goroutines per load the process
// grew during the case (last tag, grew=N); nearly all cases grow it by the same small number (the certificate
// maintenance of the instance).  After a case that grew it by more, the parent sends a ping — the worker answers it 3 ms later —
// and takes a worker that dies before the pong as having died of the case.
const c11Ping = "#ping"

func (sl *c11Slot) usualGrowth() int {
	best, n := 0, -1
	for g, c := range sl.grew {
		if c > n || (c == n && g < best) {
			best, n = g, c
		}
	}
	return best
}

// askSettled: one case, plus the ping when the case left more goroutines behind than usual (or always, if `always`).
func (sl *c11Slot) askSettled(stream string, f []string, always bool) (out string, tags []string, status int, crash string) {
	ans, st, crash := sl.ask(stream + "\t" + strings.Join(f, "\t"))
	if st != c11Answered {
		return "", nil, st, crash
	}
	out, tagstr, _ := strings.Cut(ans, "\t")
	grew := 0
	for _, t := range strings.Split(tagstr, ",") {
		if strings.HasPrefix(t, "grew=") {
			grew, _ = strconv.Atoi(t[5:])
		} else if t != "" {
			tags = append(tags, t)
		}
	}
	usual := sl.usualGrowth()
	sl.grew[grew]++
	if always || grew > usual {
		tags = append(tags, "left-goroutines-behind")
		ping := make([]string, len(f))
		for i := range ping {
			ping[i] = "-"
		}
		ping[0] = c11Ping
		if _, st, crash := sl.ask(stream + "\t" + strings.Join(ping, "\t")); st == c11Died {
			return "", nil, c11Died, crash
		}
	}
	return out, tags, c11Answered, ""
}

// c11Isolated evaluates one case of a search stream in a worker.
func c11Isolated(stream string, f []string, maxTimeouts int, skipped string) (string, []string) {
	key := stream + "/" + f[0]
	line := stream + "\t" + strings.Join(f, "\t")
	c11OrderMu.Lock()
	idx, ordered := c11Order[line]
	delete(c11Order, line)
	c11OrderMu.Unlock()
	sl := c11SlotTab[0]
	if ordered {
		sl = c11SlotTab[idx%c11Slots]
	}
	sl.mu.Lock()
	if ordered {
		for sl.next != idx/c11Slots {
			sl.cond.Wait()
		}
		defer func() {
			sl.next++
			sl.cond.Broadcast()
			sl.mu.Unlock()
		}()
	} else {
		defer sl.mu.Unlock()
	}
	if c11TimeoutCount(key, 0) >= maxTimeouts {
		return skipped, []string{"dir=" + f[0], "trivial-skipped-after-timeout-in-" + f[0]}
	}
	out, tags, st, crash := sl.askSettled(stream, f, false)
	if st == c11Died {
		// once more, alone in a fresh process
		out2, tags2, st2, crash2 := sl.askSettled(stream, f, true)
		switch st2 {
		case c11Died:
			return "PANIC:process:" + crash2, []string{"dir=" + f[0], "process-died"}
		case c11Answered:
			return "PANIC:process:(the process died while this case ran, but the case alone does not kill it: an earlier case left the cause behind) " + crash,
				[]string{"dir=" + f[0], "process-died-unattributed"}
		}
		out, tags, st, crash = out2, tags2, st2, crash2
	}
	switch st {
	case c11Silent:
		c11TimeoutCount(key, 1)
		return "TIMEOUT:process", []string{"dir=" + f[0], "process-silent"}
	case c11NoWorker:
		panic("c11: cannot start the worker process: " + crash)
	}
	if strings.HasPrefix(out, "TIMEOUT") {
		c11TimeoutCount(key, 1)
		sl.killWorker()
	}
	return out, tags
}

// c11Ordered registers a generated case (its full case line) under its number; false if the line was generated before.
func c11Ordered(line string, n int) bool {
	c11OrderMu.Lock()
	defer c11OrderMu.Unlock()
	if _, dup := c11Order[line]; dup {
		return false
	}
	c11Order[line] = n
	return true
}
