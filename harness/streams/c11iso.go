//go:build c11

package streams

import (
	"bufio"
	"io"
	"os"
	"os/exec"
	"runtime"
	"strconv"
	"strings"
	"sync"
	"time"
)

// Process isolation for the search streams c11.setup and c11.reload.
//
// recover() only sees a panic of the goroutine that runs the setup function.  A directive that starts a goroutine
// while it is being set up (proxy: the health check worker) and whose goroutine panics, a `fatal error` of the runtime
// (stack overflow, concurrent map writes, out of memory) or an os.Exit in a setup body take the whole process down —
// which is the worst way a setup can fail to be total, and the one a harness that lives in the same process can only
// report by dying itself (the check then has no failing input to show).  And a setup that hangs keeps its goroutine,
// the locks it holds and the memory it allocates for the rest of the run.
//
// So the real code runs in a WORKER: a child process of the harness (the same binary, `vharness eval`, told by the
// environment variable C11_WORKER_TMP that it is the worker) that stays alive from case to case — process-wide state
// (caches, registries) accumulates exactly as it did in-process.  The parent sends one case line and waits for one
// answer line:
//   - the worker answers: that is the case's answer; after a TIMEOUT answer the worker is killed, so the hung
//     goroutine, the lock it holds and whatever it keeps allocating go away and the next case starts in a fresh process;
//   - the worker dies: the case is evaluated once more in a fresh worker; if that one dies as well the answer is
//     PANIC:process:<first "panic:" / "fatal error:" line of its stderr> (a replayable case), otherwise the death was
//     the late effect of an earlier case and the answer says so;
//   - nothing within c11ProcessBudget: the worker is killed, TIMEOUT:process.
const c11WorkerEnv = "C11_WORKER_TMP"
const c11AnswerMark = "\x01c11\x01"
const c11ProcessBudget = 40 * time.Second

func c11IsWorker() bool { return os.Getenv(c11WorkerEnv) != "" }

// c11WorkerAnswer is what the worker prints for one case: the marker (anything casket prints on stdout by itself is
// skipped by the parent), the answer, the tags.
func c11WorkerAnswer(out string, tags []string) string {
	return "\n" + c11AnswerMark + strings.NewReplacer("\n", "\\n", "\r", "\\r", "\t", " ").Replace(out) + "\t" + strings.Join(tags, ",")
}

// c11Settle: when the case left new goroutines behind, give them a moment to run into whatever they run into
// while the case is still the current one.
func c11Settle(before int) {
	for i := 0; i < 4 && runtime.NumGoroutine() > before; i++ {
		runtime.Gosched()
	}
}

type c11Tail struct {
	mu    sync.Mutex
	first string // first line that names a crash
	last  []string
}

func (t *c11Tail) add(line string) {
	t.mu.Lock()
	defer t.mu.Unlock()
	if t.first == "" && (strings.HasPrefix(line, "panic: ") || strings.HasPrefix(line, "fatal error: ")) {
		t.first = line
	}
	t.last = append(t.last, line)
	if len(t.last) > 40 {
		t.last = t.last[len(t.last)-40:]
	}
}

func (t *c11Tail) crash() string {
	t.mu.Lock()
	defer t.mu.Unlock()
	if t.first != "" {
		return t.first
	}
	return "the worker process ended without a panic message"
}

type c11Worker struct {
	cmd     *exec.Cmd
	in      io.WriteCloser
	lines   chan string
	tail    *c11Tail
	errDone chan struct{}
}

var c11W *c11Worker

func c11Spawn() (*c11Worker, error) {
	exe, err := os.Executable()
	if err != nil {
		return nil, err
	}
	cmd := exec.Command(exe, "eval")
	cmd.Env = append(os.Environ(), c11WorkerEnv+"="+c11Tmp)
	in, err := cmd.StdinPipe()
	if err != nil {
		return nil, err
	}
	so, err := cmd.StdoutPipe()
	if err != nil {
		return nil, err
	}
	se, err := cmd.StderrPipe()
	if err != nil {
		return nil, err
	}
	if err := cmd.Start(); err != nil {
		return nil, err
	}
	w := &c11Worker{cmd: cmd, in: in, lines: make(chan string, 4), tail: &c11Tail{}, errDone: make(chan struct{})}
	go func() {
		sc := bufio.NewScanner(so)
		sc.Buffer(make([]byte, 1<<16), 1<<26)
		for sc.Scan() {
			// casket prints warnings on stdout, some without a line end: the mark may come after one
			if l := sc.Text(); strings.Contains(l, c11AnswerMark) {
				w.lines <- l[strings.Index(l, c11AnswerMark)+len(c11AnswerMark):]
			}
		}
		close(w.lines)
	}()
	go func() {
		sc := bufio.NewScanner(se)
		sc.Buffer(make([]byte, 1<<16), 1<<26)
		for sc.Scan() {
			w.tail.add(sc.Text())
		}
		close(w.errDone)
	}()
	return w, nil
}

func (w *c11Worker) kill() {
	w.in.Close()
	if w.cmd.Process != nil {
		w.cmd.Process.Kill()
	}
	go func() {
		for range w.lines {
		}
	}()
	select {
	case <-w.errDone:
	case <-time.After(2 * time.Second):
	}
	w.cmd.Wait()
}

func c11KillWorker() {
	if c11W != nil {
		c11W.kill()
		c11W = nil
	}
}

const (
	c11Answered = iota
	c11Died
	c11Silent
	c11NoWorker
)

// c11Ask sends one case line to the worker (starting one if there is none).
func c11Ask(line string) (ans string, status int, crash string) {
	if c11W == nil {
		w, err := c11Spawn()
		if err != nil {
			return "", c11NoWorker, err.Error()
		}
		c11W = w
	}
	w := c11W
	if _, err := io.WriteString(w.in, line+"\n"); err != nil {
		// the worker is gone already (killed by a goroutine an earlier case left behind)
		select {
		case <-w.errDone:
		case <-time.After(2 * time.Second):
		}
		msg := w.tail.crash()
		c11KillWorker()
		return "", c11Died, msg
	}
	select {
	case l, ok := <-w.lines:
		if !ok {
			select {
			case <-w.errDone:
			case <-time.After(2 * time.Second):
			}
			msg := w.tail.crash()
			c11KillWorker()
			return "", c11Died, msg
		}
		return l, c11Answered, ""
	case <-time.After(c11ProcessBudget):
		c11KillWorker()
		return "", c11Silent, ""
	}
}

// per directive: how many cases of a stream ended in TIMEOUT.  Every hang costs a watchdog period; once a directive
// has shown c11MaxTimeouts of them in a stream the rest of its cases in that stream are skipped (answer "total", tagged
// trivial-skipped-…: they were not evaluated), so that a directive that hangs on a whole family of inputs cannot
// stall the run.
var c11Timeouts = map[string]int{}

// A goroutine that a setup started may panic a moment AFTER the worker has answered the case (the scheduler decides),
// and the death would be seen while the next case runs.  The worker reports by how many goroutines the process grew
// during the case (last tag, grew=N); nearly all cases grow it by the same small number (the certificate maintenance
// of the instance).  After a case that grew it by more, the parent sends a ping — the worker answers it 3 ms later —
// and takes a worker that dies before the pong as having died of the case.
const c11Ping = "#ping"

var c11GrewHist = map[int]int{}

func c11UsualGrowth() int {
	best, n := 0, -1
	for g, c := range c11GrewHist {
		if c > n || (c == n && g < best) {
			best, n = g, c
		}
	}
	return best
}

// c11AskSettled: one case, plus the ping when the case left more goroutines behind than usual (or always, if `always`).
func c11AskSettled(stream string, f []string, always bool) (out string, tags []string, status int, crash string) {
	ans, st, crash := c11Ask(stream + "\t" + strings.Join(f, "\t"))
	if st != c11Answered {
		return "", nil, st, crash
	}
	out, tagstr, _ := strings.Cut(ans, "\t")
	grew := 0
	for _, t := range strings.Split(tagstr, ",") {
		if strings.HasPrefix(t, "grew=") {
			grew, _ = strconv.Atoi(t[5:])
		} else if t != "" {
			tags = append(tags, t)
		}
	}
	usual := c11UsualGrowth()
	c11GrewHist[grew]++
	if always || grew > usual {
		tags = append(tags, "left-goroutines-behind")
		ping := make([]string, len(f))
		for i := range ping {
			ping[i] = "-"
		}
		ping[0] = c11Ping
		if _, st, crash := c11Ask(stream + "\t" + strings.Join(ping, "\t")); st == c11Died {
			return "", nil, c11Died, crash
		}
	}
	return out, tags, c11Answered, ""
}

// c11Isolated evaluates one case of a search stream in the worker.
func c11Isolated(stream string, f []string, maxTimeouts int) (string, []string) {
	key := stream + "/" + f[0]
	if c11Timeouts[key] >= maxTimeouts {
		return "total", []string{"dir=" + f[0], "trivial-skipped-after-timeout-in-" + f[0]}
	}
	out, tags, st, crash := c11AskSettled(stream, f, false)
	if st == c11Died {
		// once more, alone in a fresh process
		out2, tags2, st2, crash2 := c11AskSettled(stream, f, true)
		switch st2 {
		case c11Died:
			return "PANIC:process:" + crash2, []string{"dir=" + f[0], "process-died"}
		case c11Answered:
			return "PANIC:process:(the process died while this case ran, but the case alone does not kill it: an earlier case left the cause behind) " + crash,
				[]string{"dir=" + f[0], "process-died-unattributed"}
		}
		out, tags, st, crash = out2, tags2, st2, crash2
	}
	switch st {
	case c11Silent:
		c11Timeouts[key]++
		return "TIMEOUT:process", []string{"dir=" + f[0], "process-silent"}
	case c11NoWorker:
		panic("c11: cannot start the worker process: " + crash)
	}
	if strings.HasPrefix(out, "TIMEOUT") {
		c11Timeouts[key]++
		c11KillWorker()
	}
	return out, tags
}
