//go:build c07

package streams

import (
	"bufio"
	"errors"
	"fmt"
	"net"
	"os"
	"sort"
	"strconv"
	"strings"
	"sync"
	"syscall"
	"time"

	"github.com/tmpim/casket"
	"github.com/tmpim/casket/casketfile"

	"verifharness/hx"
)

// c07.mixed  S:<servers>  R:<servers> …        hand-over with a server type that mixes kinds of sockets
//
//   servers = comma list, IN ORDER, of <kind><address>:   t  TCP listener only      u  UDP packet conn only
//                                                        b  both                   address 1..3 (free ports chosen per case,
//             suffix x on the list = the configuration fails during setup           the same number for TCP and UDP), 9 = in use
//
// A fake server type (registered through the public plugin API) whose servers really listen on loopback and answer every
// TCP connection and every datagram with "<generation>:<address>", so an answer says WHICH server produced it.
//   out = step|step|…   step = <res>;1t=<fds>:<answers>;1u=…;2t=…;2u=…;3t=…;3u=…
//     fds      descriptors of this process bound to the port (listening TCP sockets / UDP sockets)
//     answers  the distinct answers to 6 fresh TCP connections / 6 datagrams, joined by +, or - (refused / no answer)

const c07mType = "veriffake07"

type c07mCtx struct {
	gen     int
	ports   [10]int
	servers []casket.Server
	fail    bool
}

func (c *c07mCtx) InspectServerBlocks(_ string, sb []casketfile.ServerBlock) ([]casketfile.ServerBlock, error) {
	return sb, nil
}
func (c *c07mCtx) MakeServers() ([]casket.Server, error) { return c.servers, nil }

type c07mServer struct {
	gen, addr int
	kind      byte
	port      int
	stop      chan struct{}
	once      sync.Once
	mu        sync.Mutex
	closers   []interface{ Close() error }
}

func (s *c07mServer) answer() string { return fmt.Sprintf("%d:%d", s.gen, s.addr) }

func (s *c07mServer) track(c interface{ Close() error }) {
	s.mu.Lock()
	s.closers = append(s.closers, c)
	s.mu.Unlock()
}

func (s *c07mServer) Listen() (net.Listener, error) {
	if s.kind == 'u' {
		return nil, nil
	}
	ln, err := net.Listen("tcp", fmt.Sprintf("127.0.0.1:%d", s.port))
	if err != nil {
		return nil, err
	}
	return ln, nil // *net.TCPListener: has File()
}

func (s *c07mServer) ListenPacket() (net.PacketConn, error) {
	if s.kind == 't' {
		return nil, nil
	}
	ua, _ := net.ResolveUDPAddr("udp", fmt.Sprintf("127.0.0.1:%d", s.port))
	pc, err := net.ListenUDP("udp", ua)
	if err != nil {
		return nil, err
	}
	return pc, nil // *net.UDPConn: has File()
}

func (s *c07mServer) Serve(ln net.Listener) error {
	if ln == nil {
		return nil
	}
	s.track(ln)
	for {
		c, err := ln.Accept()
		if err != nil {
			return nil
		}
		c.Write([]byte(s.answer() + "\n"))
		c.Close()
	}
}

func (s *c07mServer) ServePacket(pc net.PacketConn) error {
	if pc == nil {
		return nil
	}
	s.track(pc)
	buf := make([]byte, 64)
	for {
		_, from, err := pc.ReadFrom(buf)
		if err != nil {
			return nil
		}
		pc.WriteTo([]byte(s.answer()), from)
	}
}

func (s *c07mServer) Stop() error {
	s.once.Do(func() {
		close(s.stop)
		s.mu.Lock()
		for _, c := range s.closers {
			c.Close()
		}
		s.mu.Unlock()
	})
	return nil
}
func (s *c07mServer) Address() string                           { return fmt.Sprintf("a%d", s.addr) }
func (s *c07mServer) WrapListener(ln net.Listener) net.Listener { return ln }

var c07mPorts [10]int // ports of the case being evaluated (the setup function of the directive reads them)

func init() {
	casket.RegisterServerType(c07mType, casket.ServerType{
		Directives: func() []string { return []string{"mgen", "msrv", "mboom"} },
		NewContext: func(inst *casket.Instance) casket.Context { return &c07mCtx{ports: c07mPorts} },
	})
	casket.RegisterPlugin("mgen", casket.Plugin{ServerType: c07mType, Action: func(c *casket.Controller) error {
		ctx := c.Context().(*c07mCtx)
		for c.Next() {
			a := c.RemainingArgs()
			if len(a) != 1 {
				return c.ArgErr()
			}
			ctx.gen, _ = strconv.Atoi(a[0])
		}
		return nil
	}})
	casket.RegisterPlugin("msrv", casket.Plugin{ServerType: c07mType, Action: func(c *casket.Controller) error {
		ctx := c.Context().(*c07mCtx)
		for c.Next() {
			a := c.RemainingArgs()
			if len(a) != 2 {
				return c.ArgErr()
			}
			addr, _ := strconv.Atoi(a[1])
			ctx.servers = append(ctx.servers, &c07mServer{gen: ctx.gen, addr: addr, kind: a[0][0], port: ctx.ports[addr], stop: make(chan struct{})})
		}
		return nil
	}})
	casket.RegisterPlugin("mboom", casket.Plugin{ServerType: c07mType, Action: func(c *casket.Controller) error {
		return errors.New("veriffake07: setup fails")
	}})
	hx.Register(&hx.Stream{ID: "C07", Name: "c07.mixed", Gen: c07mGen, Eval: c07mEval, Serial: true, Setup: c07Setup, Teardown: c07Teardown})
}

type c07mSrv struct {
	kind byte
	addr int
}

func c07mParse(s string) (srvs []c07mSrv, fail, ok bool) {
	if strings.HasSuffix(s, "x") {
		fail = true
		s = s[:len(s)-1]
	}
	if s == "" {
		return nil, fail, false
	}
	for _, x := range strings.Split(s, ",") {
		if len(x) != 2 || !strings.ContainsRune("tub", rune(x[0])) || !strings.ContainsRune("1239", rune(x[1])) {
			return nil, fail, false
		}
		srvs = append(srvs, c07mSrv{x[0], int(x[1] - '0')})
	}
	// one server per address
	seen := map[int]bool{}
	for _, s := range srvs {
		if seen[s.addr] {
			return nil, fail, false
		}
		seen[s.addr] = true
	}
	return srvs, fail, true
}

func c07mInput(srvs []c07mSrv, fail bool, gen int) casket.Input {
	var b strings.Builder
	fmt.Fprintf(&b, "mixed {\n mgen %d\n", gen)
	for _, s := range srvs {
		fmt.Fprintf(&b, " msrv %c %d\n", s.kind, s.addr)
	}
	if fail {
		b.WriteString(" mboom\n")
	}
	b.WriteString("}\n")
	return casket.CasketfileInput{ServerTypeName: c07mType, Filepath: "verif", Contents: []byte(b.String())}
}

// descriptors of this process bound to the port: listening TCP sockets, UDP sockets
func c07mFds(port int) (tcp, udp int) {
	ents, _ := os.ReadDir("/proc/self/fd")
	for _, e := range ents {
		fd, err := strconv.Atoi(e.Name())
		if err != nil {
			continue
		}
		typ, err := syscall.GetsockoptInt(fd, syscall.SOL_SOCKET, syscall.SO_TYPE)
		if err != nil {
			continue
		}
		sa, err := syscall.Getsockname(fd)
		if err != nil {
			continue
		}
		lp := 0
		switch a := sa.(type) {
		case *syscall.SockaddrInet4:
			lp = a.Port
		case *syscall.SockaddrInet6:
			lp = a.Port
		}
		if lp != port {
			continue
		}
		if typ == syscall.SOCK_STREAM {
			if v, err := syscall.GetsockoptInt(fd, syscall.SOL_SOCKET, syscall.SO_ACCEPTCONN); err == nil && v == 1 {
				tcp++
			}
		} else if typ == syscall.SOCK_DGRAM {
			udp++
		}
	}
	return
}

func c07mAnswers(port int, udp bool) string {
	set := map[string]bool{}
	for i := 0; i < 6; i++ {
		a := "-"
		if !udp {
			c, err := net.DialTimeout("tcp", fmt.Sprintf("127.0.0.1:%d", port), 2*time.Second)
			if err == nil {
				c.SetDeadline(time.Now().Add(2 * time.Second))
				l, err := bufio.NewReader(c).ReadString('\n')
				if err == nil {
					a = strings.TrimSpace(l)
				} else {
					a = "e:reset"
				}
				c.Close()
			}
		} else {
			c, err := net.Dial("udp", fmt.Sprintf("127.0.0.1:%d", port))
			if err == nil {
				c.SetDeadline(time.Now().Add(300 * time.Millisecond))
				c.Write([]byte("?"))
				buf := make([]byte, 64)
				n, err := c.Read(buf)
				if err == nil {
					a = string(buf[:n])
				}
				c.Close()
			}
		}
		set[a] = true
		if a == "-" && len(set) == 1 && i >= 1 {
			break // nobody there: no need to insist
		}
	}
	var l []string
	for a := range set {
		l = append(l, a)
	}
	sort.Strings(l)
	return strings.Join(l, "+")
}

func c07mObserve(ports [10]int) string {
	var parts []string
	for a := 1; a <= 3; a++ {
		t, u := c07mFds(ports[a])
		parts = append(parts, fmt.Sprintf("%dt=%d:%s", a, t, c07mAnswers(ports[a], false)))
		parts = append(parts, fmt.Sprintf("%du=%d:%s", a, u, c07mAnswers(ports[a], true)))
	}
	return strings.Join(parts, ";")
}

func c07mFreePort() int { return c07Ports.reserve(true) }

func c07mEval(f []string) (string, []string) {
	casket.Stop()
	casket.VerifC08ResetInstances()
	if len(f) == 0 || !strings.HasPrefix(f[0], "S:") {
		return "bad-case", nil
	}
	type op struct {
		srvs []c07mSrv
		fail bool
	}
	var ops []op
	for i, s := range f {
		if (i == 0) != strings.HasPrefix(s, "S:") || (i > 0 && !strings.HasPrefix(s, "R:")) {
			return "bad-case", nil
		}
		srvs, fail, ok := c07mParse(s[2:])
		if !ok {
			return "bad-case", nil
		}
		ops = append(ops, op{srvs, fail})
	}
	for _, s := range ops[0].srvs {
		if s.addr == 9 {
			return "bad-case", nil
		}
	}
	if ops[0].fail {
		return "bad-case", nil
	}
	var ports [10]int
	c07Ports.release()
	for a := 1; a <= 3; a++ {
		ports[a] = c07mFreePort()
	}
	// address 9 is in use by somebody else, TCP and UDP
	ports[9] = c07mFreePort()
	busyT, err1 := net.Listen("tcp", fmt.Sprintf("127.0.0.1:%d", ports[9]))
	ua, _ := net.ResolveUDPAddr("udp", fmt.Sprintf("127.0.0.1:%d", ports[9]))
	busyU, err2 := net.ListenUDP("udp", ua)
	if err1 != nil || err2 != nil {
		return "setup-error:busy", nil
	}
	defer busyT.Close()
	defer busyU.Close()
	c07mPorts = ports
	tags := map[string]bool{}
	if _, err := casket.Start(c07mInput(ops[0].srvs, false, 1)); err != nil {
		return "setup-error:" + err.Error(), nil
	}
	steps := []string{"ok;" + c07mObserve(ports)}
	for i, o := range ops[1:] {
		insts := casket.Instances()
		if len(insts) == 0 {
			return "setup-error:no instance", nil
		}
		res := "ok"
		if _, err := insts[0].Restart(c07mInput(o.srvs, o.fail, i+2)); err != nil {
			res = "err"
		}
		tags["reload-"+res] = true
		steps = append(steps, res+";"+c07mObserve(ports))
	}
	casket.Stop()
	casket.VerifC08ResetInstances()
	tl := []string{fmt.Sprintf("len=%d", len(f))}
	for t := range tags {
		tl = append(tl, t)
	}
	sort.Strings(tl)
	return strings.Join(steps, "|"), tl
}

func c07mGen(g *hx.Gen) {
	// An address keeps its kind within a case (casket keys the hand-over by address only: re-using an address for another
	// kind of socket is outside this stream); reloads permute, drop, re-add servers, fail during setup or hit a port in use.
	kinds := []byte{'t', 'u', 'b'}
	rev := func(c string) string {
		p := strings.Split(c, ",")
		for i, j := 0, len(p)-1; i < j; i, j = i+1, j-1 {
			p[i], p[j] = p[j], p[i]
		}
		return strings.Join(p, ",")
	}
	first := func(c string) string { return strings.Split(c, ",")[0] }
	last := func(c string) string { p := strings.Split(c, ","); return p[len(p)-1] }
	var cfgs2, cfgs3 []string
	for _, k1 := range kinds {
		for _, k2 := range kinds {
			cfgs2 = append(cfgs2, fmt.Sprintf("%c1,%c2", k1, k2), fmt.Sprintf("%c2,%c1", k1, k2))
			for _, k3 := range kinds {
				cfgs3 = append(cfgs3, fmt.Sprintf("%c1,%c2,%c3", k1, k2, k3))
			}
		}
	}
	for _, c := range cfgs2 {
		g.Case("S:"+c, "R:"+c)                // reload of the same configuration: everything is handed over
		g.Case("S:"+c, "R:"+c, "R:"+c)        // … twice
		g.Case("S:"+c, "R:"+c+"x", "R:"+c)    // a reload failing during setup in between
		g.Case("S:"+c, "R:"+rev(c))           // the servers in the other order
		g.Case("S:"+c, "R:"+first(c), "R:"+c) // a server dropped and added again
		g.Case("S:"+c, "R:"+last(c), "R:"+c)
		g.Case("S:"+c, "R:"+c+",t9", "R:"+c) // a port in use after everything else was handed over
		g.Case("S:"+c, "R:u9,"+c, "R:"+rev(c))
	}
	if g.Thorough() {
		for _, c := range cfgs3 {
			g.Case("S:"+c, "R:"+c)
			g.Case("S:"+c, "R:"+rev(c), "R:"+c)
			g.Case("S:"+c, "R:"+first(c)+","+last(c), "R:"+c)
		}
		for it := 0; it < 300; it++ {
			c := hx.Pick(g.Rng, append(append([]string(nil), cfgs2...), cfgs3...))
			parts := strings.Split(c, ",")
			ops := []string{"S:" + c}
			for i := 0; i < 1+g.Rng.Intn(4); i++ {
				// a random non-empty sub-list in random order
				var sub []string
				for _, p := range parts {
					if g.Rng.Chance(3, 4) {
						sub = append(sub, p)
					}
				}
				if len(sub) == 0 {
					sub = []string{parts[g.Rng.Intn(len(parts))]}
				}
				for j := len(sub) - 1; j > 0; j-- {
					k := g.Rng.Intn(j + 1)
					sub[j], sub[k] = sub[k], sub[j]
				}
				r := strings.Join(sub, ",")
				switch g.Rng.Intn(8) {
				case 0:
					r += "x"
				case 1:
					r += "," + string("tub"[g.Rng.Intn(3)]) + "9"
				}
				ops = append(ops, "R:"+r)
			}
			g.Case(ops...)
		}
	}
	for _, m := range [][]string{{"R:t1"}, {"S:"}, {"S:t1", "Q"}, {"S:t9"}, {"S:t1x"}, {"S:t1,u1"}, {"S:z1"}} {
		g.Case(m...)
	}
}
