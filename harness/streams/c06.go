//go:build c06

package streams

import (
	"crypto/ecdsa"
	"crypto/elliptic"
	"crypto/rand"
	"crypto/tls"
	"crypto/x509"
	"crypto/x509/pkix"
	"encoding/pem"
	"fmt"
	"io"
	"log"
	"math/big"
	"net"
	"net/http"
	"net/http/httptest"
	"net/url"
	"os"
	"path/filepath"
	"strconv"
	"strings"
	"time"

	"github.com/klauspost/cpuid"
	"github.com/tmpim/casket/caskethttp/httpserver"
	"github.com/tmpim/casket/caskettls"

	"verifharness/hx"
)

// c06.select  aesni  cfgs  snihex  localip
//   cfgs = ';' list of hosthex|enabled|min|max|ciphers|curves|prefer|clientAuth|clientCerts|alpn|disableSNI
//   out  = err:<class> | plain | nil | any | cfg TAB idx TAB min TAB max TAB ciphers TAB curves TAB prefer TAB clientAuth TAB alpn
//
// The real code path: caskettls.SetDefaultTLSParams on every enabled config (as setupTLS /
// enableAutoHTTPS do), caskettls.MakeTLSConfig, then the returned tls.Config's GetConfigForClient.

type c06Cfg struct {
	host        string
	enabled     bool
	min, max    int
	ciphers     []int
	curves      []int
	prefer      bool
	clientAuth  int
	clientCerts []int
	alpn        []string
	disableSNI  bool
}

func c06Ints(xs []int) string {
	s := make([]string, len(xs))
	for i, x := range xs {
		s[i] = strconv.Itoa(x)
	}
	return strings.Join(s, ",")
}

func c06ParseInts(s string) []int {
	if s == "" {
		return nil
	}
	var out []int
	for _, p := range strings.Split(s, ",") {
		n, _ := strconv.Atoi(p)
		out = append(out, n)
	}
	return out
}

func b01(b bool) string {
	if b {
		return "1"
	}
	return "0"
}

func (c c06Cfg) enc() string {
	al := make([]string, len(c.alpn))
	for i, a := range c.alpn {
		al[i] = hx.HS(a)
	}
	return strings.Join([]string{hx.HS(c.host), b01(c.enabled), strconv.Itoa(c.min), strconv.Itoa(c.max),
		c06Ints(c.ciphers), c06Ints(c.curves), b01(c.prefer), strconv.Itoa(c.clientAuth), c06Ints(c.clientCerts),
		strings.Join(al, ","), b01(c.disableSNI)}, "|")
}

func c06EncCfgs(cs []c06Cfg) string {
	p := make([]string, len(cs))
	for i, c := range cs {
		p[i] = c.enc()
	}
	return strings.Join(p, ";")
}

func c06ParseCfgs(s string) []c06Cfg {
	if s == "" {
		return nil
	}
	var out []c06Cfg
	for _, e := range strings.Split(s, ";") {
		p := strings.Split(e, "|")
		c := c06Cfg{host: hx.UnHS(p[0]), enabled: p[1] == "1", prefer: p[6] == "1", disableSNI: p[10] == "1"}
		c.min, _ = strconv.Atoi(p[2])
		c.max, _ = strconv.Atoi(p[3])
		c.ciphers, c.curves, c.clientCerts = c06ParseInts(p[4]), c06ParseInts(p[5]), c06ParseInts(p[8])
		c.clientAuth, _ = strconv.Atoi(p[7])
		if p[9] != "" {
			for _, a := range strings.Split(p[9], ",") {
				c.alpn = append(c.alpn, hx.UnHS(a))
			}
		}
		out = append(out, c)
	}
	return out
}

var c06Dir string

// c06Setup writes four client-CA files ca0.pem … ca3.pem; higher ids name files that do not exist.
func c06Setup() error {
	log.SetOutput(io.Discard)
	d, err := os.MkdirTemp("", "verif-c06-")
	if err != nil {
		return err
	}
	c06Dir = d
	for i := 0; i < 4; i++ {
		key, err := ecdsa.GenerateKey(elliptic.P256(), rand.Reader)
		if err != nil {
			return err
		}
		tpl := &x509.Certificate{SerialNumber: big.NewInt(int64(i + 1)), Subject: pkix.Name{CommonName: fmt.Sprintf("verif-ca-%d", i)},
			NotBefore: time.Now().Add(-time.Hour), NotAfter: time.Now().Add(24 * time.Hour), IsCA: true,
			KeyUsage: x509.KeyUsageCertSign, BasicConstraintsValid: true}
		der, err := x509.CreateCertificate(rand.Reader, tpl, tpl, &key.PublicKey, key)
		if err != nil {
			return err
		}
		if err := os.WriteFile(c06CAFile(i), pem.EncodeToMemory(&pem.Block{Type: "CERTIFICATE", Bytes: der}), 0o600); err != nil {
			return err
		}
	}
	return nil
}

func c06Teardown() {
	if c06Dir != "" {
		os.RemoveAll(c06Dir)
	}
}

func c06CAFile(i int) string { return filepath.Join(c06Dir, fmt.Sprintf("ca%d.pem", i)) }

func c06Real(c c06Cfg) *caskettls.Config {
	rc := &caskettls.Config{Hostname: c.host, Enabled: c.enabled, ProtocolMinVersion: uint16(c.min), ProtocolMaxVersion: uint16(c.max),
		PreferServerCipherSuites: c.prefer, ClientAuth: tls.ClientAuthType(c.clientAuth), InsecureDisableSNIMatching: c.disableSNI}
	for _, x := range c.ciphers {
		rc.Ciphers = append(rc.Ciphers, uint16(x))
	}
	for _, x := range c.curves {
		rc.CurvePreferences = append(rc.CurvePreferences, tls.CurveID(x))
	}
	for _, x := range c.clientCerts {
		rc.ClientCerts = append(rc.ClientCerts, c06CAFile(x))
	}
	rc.ALPN = append(rc.ALPN, c.alpn...)
	return rc
}

type c06Addr string

func (a c06Addr) Network() string { return "tcp" }
func (a c06Addr) String() string  { return string(a) }

type c06Conn struct {
	net.Conn
	local string
}

func (c c06Conn) LocalAddr() net.Addr { return c06Addr(c.local) }

func c06U16s[T ~uint16](xs []T) string {
	s := make([]string, len(xs))
	for i, x := range xs {
		s[i] = strconv.Itoa(int(x))
	}
	return strings.Join(s, ",")
}

func c06ShowTLS(tc *tls.Config) string {
	al := make([]string, len(tc.NextProtos))
	for i, a := range tc.NextProtos {
		al[i] = hx.HS(a)
	}
	return strings.Join([]string{strconv.Itoa(int(tc.MinVersion)), strconv.Itoa(int(tc.MaxVersion)), c06U16s(tc.CipherSuites),
		c06U16s(tc.CurvePreferences), b01(tc.PreferServerCipherSuites), strconv.Itoa(int(tc.ClientAuth)), strings.Join(al, ",")}, "\t")
}

// c06AesniOK: the aesni field must describe this CPU whenever a default cipher list is used
func c06AesniOK(field string, cfgs []c06Cfg) bool {
	if (field == "1") == cpuid.CPU.AesNi() {
		return true
	}
	for _, c := range cfgs {
		if len(c.ciphers) == 0 {
			return false
		}
	}
	return true
}

func c06SelectEval(f []string) (string, []string) {
	if len(f) != 4 {
		return "bad-case", nil
	}
	cfgs := c06ParseCfgs(f[1])
	if !c06AesniOK(f[0], cfgs) {
		return "bad-case:aesni field does not describe this CPU", nil
	}
	sni := hx.UnHS(f[2])
	configs := make([]*caskettls.Config, len(cfgs))
	nEnabled := 0
	for i, c := range cfgs {
		configs[i] = c06Real(c)
		if c.enabled {
			nEnabled++
			caskettls.SetDefaultTLSParams(configs[i])
		}
	}
	tags := []string{fmt.Sprintf("cfgs=%d", len(cfgs))}
	tc, err := caskettls.MakeTLSConfig(configs)
	if err != nil {
		cls := "1"
		switch {
		case strings.Contains(err.Error(), "cannot multiplex"):
			cls = "0"
		case strings.Contains(err.Error(), "incompatible TLS configurations"):
			cls = "2"
		}
		return "err:" + cls, append(tags, "rejected-"+cls)
	}
	if tc == nil {
		return "plain", append(tags, "trivial-plain")
	}
	hello := &tls.ClientHelloInfo{ServerName: sni}
	if f[3] != "-" {
		hello.Conn = c06Conn{local: hx.UnHS(f[3])}
		tags = append(tags, "with-conn")
	}
	idx := -3
	for try := 0; try < 400; try++ { // map iteration of a small map starts at a random slot: P(same first entry) <= 7/8 per try
		got, err := tc.GetConfigForClient(hello)
		if err != nil {
			return "getconfig-error", tags
		}
		cur := -1
		if got != nil {
			cur = -2
			for i, rc := range configs {
				if caskettls.VerifTLSConfig(rc) == got {
					cur = i
				}
			}
		}
		if try > 0 && cur != idx {
			return "any", append(tags, "random-failover")
		}
		idx = cur
		if try == 0 && idx >= 0 {
			h := cfgs[idx].host
			switch {
			case h == strings.ToLower(strings.TrimSpace(sni)) && h != "":
				tags = append(tags, "by-exact-name")
			case strings.Contains(h, "*"):
				tags = append(tags, "by-wildcard")
			default:
				tags = append(tags, "by-catchall-or-failover")
			}
		}
	}
	switch idx {
	case -1:
		return "nil", tags
	case -2:
		return "foreign-config", tags
	}
	if len(cfgs) < 2 {
		tags = append(tags, "trivial-single-config")
	}
	return "cfg\t" + strconv.Itoa(idx) + "\t" + c06ShowTLS(caskettls.VerifTLSConfig(configs[idx])), tags
}

var c06Hosts = []string{"a.com", "*.a.com", "b.a.com", "*.*.com", "", "0.0.0.0", "::", "*", "127.0.0.1", "c.org"}
var c06SNIs = []string{"a.com", "A.COM", " a.com\t", "b.a.com", "x.a.com", "x.y.com", "zzz", "", "127.0.0.1", "c.org", "x.b.a.com"}

func c06Profile(n int) c06Cfg {
	c := c06Cfg{enabled: true}
	switch n % 5 {
	case 1:
		c.min, c.max = 0x0303, 0x0303
	case 2:
		c.min, c.max = 0x0301, 0x0302
	case 3:
		c.min, c.max = 0x0304, 0x0304
	case 4:
		c.min = 0x0301
	}
	switch (n / 5) % 3 {
	case 1:
		c.ciphers = []int{0xc02f}
	case 2:
		c.ciphers = []int{0xc02f, 0xc030, 0xc02f, 0xc014}
	}
	switch (n / 15) % 3 {
	case 1:
		c.curves = []int{23}
	case 2:
		c.curves = []int{29, 29, 24}
	}
	switch (n / 45) % 5 {
	case 1:
		c.clientAuth = 1
	case 2:
		c.clientAuth, c.clientCerts = 4, []int{0}
	case 3:
		c.clientAuth, c.clientCerts = 4, []int{0, 1}
	case 4:
		c.clientAuth, c.clientCerts = 4, []int{1, 0}
	}
	switch (n / 225) % 4 {
	case 1:
		c.alpn = []string{"h2", "http/1.1"}
	case 2:
		c.alpn = []string{"acme-tls/1"}
	case 3:
		c.alpn = []string{"h2"}
	}
	return c
}

const c06Profiles = 900

func c06SelectGen(g *hx.Gen) {
	aes := b01(cpuid.CPU.AesNi())
	emit := func(cs []c06Cfg, sni, lip string) {
		l := "-"
		if lip != "-" {
			l = hx.HS(lip)
		}
		g.Case(aes, c06EncCfgs(cs), hx.HS(sni), l)
	}
	with := func(c c06Cfg, h string) c06Cfg { c.host = h; return c }
	// no configs, single configs
	emit(nil, "a.com", "-")
	for _, h := range c06Hosts {
		for p := 0; p < 45; p += 7 {
			for _, s := range c06SNIs {
				emit([]c06Cfg{with(c06Profile(p), h)}, s, "-")
			}
		}
	}
	// exhaustive host pairs x a few profile pairs x every SNI; TLS/plaintext mixes
	profPairs := [][2]int{{0, 0}, {0, 1}, {1, 1}, {0, 5}, {0, 45}, {90, 90}, {90, 135}, {135, 180}, {0, 225}, {2, 3}, {450, 450}}
	for _, h1 := range c06Hosts {
		for _, h2 := range c06Hosts {
			for pi, pp := range profPairs {
				for si, s := range c06SNIs {
					if !g.Thorough() && (pi+si)%3 != 0 && h1 != h2 && !(h1 == "" || h1 == "0.0.0.0" || h1 == "::") {
						continue
					}
					emit([]c06Cfg{with(c06Profile(pp[0]), h1), with(c06Profile(pp[1]), h2)}, s, "-")
				}
			}
			a, b := with(c06Profile(0), h1), with(c06Profile(1), h2)
			b.enabled = false
			emit([]c06Cfg{a, b}, "a.com", "-")
			emit([]c06Cfg{b, a}, "a.com", "-")
			a.enabled = false
			emit([]c06Cfg{a, b}, "a.com", "-")
		}
	}
	// same SNI key (incl. the catch-all aliases), settings differing in exactly one field:
	// each must be rejected as incompatible (and identical ones accepted)
	for _, hp := range [][2]string{{"a.com", "a.com"}, {"", "0.0.0.0"}, {"::", ""}, {"0.0.0.0", "::"}, {"*.a.com", "*.a.com"}} {
		for _, basep := range []int{0, 1, 92, 137} {
			base := with(c06Profile(basep), hp[0])
			variants := []c06Cfg{with(c06Profile(basep), hp[1])}
			v := with(c06Profile(basep), hp[1])
			v.min = 0x0302
			variants = append(variants, v)
			v = with(c06Profile(basep), hp[1])
			v.max = 0x0303
			if base.max == 0x0303 {
				v.max = 0x0304
			}
			variants = append(variants, v)
			v = with(c06Profile(basep), hp[1])
			v.ciphers = append([]int{0xc02c}, v.ciphers...)
			variants = append(variants, v)
			v = with(c06Profile(basep), hp[1])
			v.curves = append(append([]int{}, v.curves...), 25)
			variants = append(variants, v)
			v = with(c06Profile(basep), hp[1])
			v.alpn = append(append([]string{}, v.alpn...), "spdy/3")
			variants = append(variants, v)
			v = with(c06Profile(basep), hp[1])
			v.clientAuth = (v.clientAuth + 1) % 5
			variants = append(variants, v)
			v = with(c06Profile(basep), hp[1])
			v.clientCerts = append(append([]int{}, v.clientCerts...), 2)
			variants = append(variants, v)
			v = with(c06Profile(basep), hp[1])
			v.disableSNI = true // not a TLS setting: still compatible
			variants = append(variants, v)
			for _, vv := range variants {
				emit([]c06Cfg{base, vv}, "a.com", "-")
				emit([]c06Cfg{with(c06Profile(3), "c.org"), vv, base}, "x.a.com", "-")
			}
		}
	}
	// same SNI key, BOTH sites with client authentication on, differing ONLY in the mode: all ordered
	// pairs of the modes request(1) require(2) verify_if_given(3) require_and_verify(4) (and none), the CA
	// list identical and in the same order; equal modes must be accepted, different ones rejected
	for _, hp := range [][2]string{{"a.com", "a.com"}, {"", "0.0.0.0"}, {"*.a.com", "*.a.com"}} {
		for _, cas := range [][]int{{0}, {0, 1}} {
			for m1 := 0; m1 <= 4; m1++ {
				for m2 := 0; m2 <= 4; m2++ {
					a, b := with(c06Profile(0), hp[0]), with(c06Profile(0), hp[1])
					a.clientAuth, b.clientAuth = m1, m2
					a.clientCerts, b.clientCerts = cas, cas
					emit([]c06Cfg{a, b}, "a.com", "-")
					emit([]c06Cfg{with(c06Profile(3), "c.org"), a, with(c06Profile(1), "b.a.com"), b}, "x.a.com", "-")
				}
			}
		}
	}
	// every field assertConfigsCompatible compares, alone, in both declaration orders: cipher order, curve
	// order, ALPN order, client-CA order (in addition to the value changes above)
	{
		base := with(c06Profile(0), "a.com")
		base.ciphers = []int{0xc02b, 0xc02f}
		base.curves = []int{29, 23}
		base.alpn = []string{"h2", "http/1.1"}
		base.clientAuth, base.clientCerts = 4, []int{0, 1}
		swaps := []func(c *c06Cfg){
			func(c *c06Cfg) { c.ciphers = []int{0xc02f, 0xc02b} },
			func(c *c06Cfg) { c.curves = []int{23, 29} },
			func(c *c06Cfg) { c.alpn = []string{"http/1.1", "h2"} },
			func(c *c06Cfg) { c.clientCerts = []int{1, 0} },
			func(c *c06Cfg) { c.min = 0x0303 }, // explicit TLS 1.2 = the default: still compatible
			func(c *c06Cfg) { c.max = 0x0303 },
			func(c *c06Cfg) { c.min = 0x0302 },
		}
		for _, sw := range swaps {
			v := base
			sw(&v)
			emit([]c06Cfg{base, v}, "a.com", "-")
			emit([]c06Cfg{v, base}, "a.com", "-")
		}
	}
	// local-address preference for an empty server name
	for _, h := range []string{"127.0.0.1", "::1", "a.com"} {
		for _, lip := range []string{"127.0.0.1:443", "[::1]:443", "10.0.0.1:443", "garbage", "-"} {
			for _, s := range []string{"", "a.com", "  "} {
				emit([]c06Cfg{with(c06Profile(1), h), with(c06Profile(2), ""), with(c06Profile(3), "a.com")}, s, lip)
				emit([]c06Cfg{with(c06Profile(1), h), with(c06Profile(3), "*.com")}, s, lip)
			}
		}
	}
	// missing client-CA file
	for _, ca := range []int{0, 4} {
		c := with(c06Profile(0), "a.com")
		c.clientAuth, c.clientCerts = ca, []int{0, 7}
		emit([]c06Cfg{with(c06Profile(0), "b.com"), c}, "a.com", "-")
	}
	// seeded random: up to 6 configs
	N := 5000
	if g.Thorough() {
		N = 120000
	}
	for it := 0; it < N; it++ {
		n := 1 + g.Rng.Intn(6)
		cs := make([]c06Cfg, n)
		base := g.Rng.Intn(c06Profiles)
		for i := range cs {
			p := base
			if g.Rng.Chance(1, 4) {
				p = g.Rng.Intn(c06Profiles)
			}
			cs[i] = with(c06Profile(p), hx.Pick(g.Rng, c06Hosts))
			if g.Rng.Chance(1, 25) {
				cs[i].enabled = false
			}
			if g.Rng.Chance(1, 40) {
				cs[i].clientCerts = append(cs[i].clientCerts, 4+g.Rng.Intn(3))
			}
			cs[i].disableSNI = g.Rng.Chance(1, 5)
		}
		lip := "-"
		if g.Rng.Chance(1, 6) {
			lip = hx.Pick(g.Rng, []string{"127.0.0.1:443", "[::1]:8443", "0.0.0.0:1"})
		}
		emit(cs, hx.Pick(g.Rng, c06SNIs), lip)
	}
}

// c06.defaults  aesni  cfg     out = min TAB max TAB ciphers TAB curves TAB prefer      (SetDefaultTLSParams)
func c06DefaultsEval(f []string) (string, []string) {
	if (f[0] == "1") != cpuid.CPU.AesNi() {
		return "bad-case:aesni field does not describe this CPU", nil
	}
	cs := c06ParseCfgs(f[1])
	rc := c06Real(cs[0])
	caskettls.SetDefaultTLSParams(rc)
	tags := []string{"defaults"}
	if cs[0].min == 0 {
		tags = append(tags, "min-unset")
	}
	if len(cs[0].ciphers) == 0 {
		tags = append(tags, "ciphers-unset")
	}
	return strings.Join([]string{strconv.Itoa(int(rc.ProtocolMinVersion)), strconv.Itoa(int(rc.ProtocolMaxVersion)),
		c06U16s(rc.Ciphers), c06U16s(rc.CurvePreferences), b01(rc.PreferServerCipherSuites)}, "\t"), tags
}

// c06.build  aesni  cfg     (MakeTLSConfig on ONE config WITHOUT SetDefaultTLSParams: buildStandardTLSConfig alone)
//
//	out = err | plain | min TAB max TAB ciphers TAB curves TAB prefer TAB clientAuth TAB alpn
func c06BuildEval(f []string) (string, []string) {
	if (f[0] == "1") != cpuid.CPU.AesNi() {
		return "bad-case:aesni field does not describe this CPU", nil
	}
	cs := c06ParseCfgs(f[1])
	rc := c06Real(cs[0])
	tc, err := caskettls.MakeTLSConfig([]*caskettls.Config{rc})
	if err != nil {
		return "err", []string{"build-error"}
	}
	if tc == nil {
		return "plain", []string{"trivial-plain"}
	}
	got := caskettls.VerifTLSConfig(rc)
	if got == nil {
		return "nil", nil
	}
	tags := []string{"built"}
	if len(cs[0].ciphers) == 0 {
		tags = append(tags, "ciphers-unset")
	}
	return c06ShowTLS(got), tags
}

func init() {
	hx.Register(&hx.Stream{ID: "C06", Name: "c06.build",
		Gen: func(g *hx.Gen) {
			aes := b01(cpuid.CPU.AesNi())
			for p := 0; p < c06Profiles; p++ {
				c := c06Profile(p)
				c.host = "a.com"
				g.Case(aes, c.enc())
				c.ciphers = append([]int{0x5600}, c.ciphers...) // SCSV already first
				g.Case(aes, c.enc())
				c.ciphers = append([]int{0xc02b}, c.ciphers...) // SCSV in the middle
				c.clientCerts = append(c.clientCerts, p%6)
				g.Case(aes, c.enc())
			}
			c := c06Profile(0)
			c.enabled = false
			g.Case(aes, c.enc())
		},
		Eval: c06BuildEval, Setup: c06Setup, Teardown: c06Teardown})
	hx.Register(&hx.Stream{ID: "C06", Name: "c06.select", Gen: c06SelectGen, Eval: c06SelectEval, Setup: c06Setup, Teardown: c06Teardown})
	hx.Register(&hx.Stream{ID: "C06", Name: "c06.defaults",
		Gen: func(g *hx.Gen) {
			aes := b01(cpuid.CPU.AesNi())
			for p := 0; p < c06Profiles; p++ {
				c := c06Profile(p)
				c.host = "a.com"
				g.Case(aes, c.enc())
				c.prefer = true
				c.max = 0x0303
				g.Case(aes, c.enc())
			}
		},
		Eval: c06DefaultsEval})
}

// c06.snihost  sites  cfgs  hosthex  pathhex  sni
//
//	sites as in c01.route; cfgs = ';' list of clientAuth|disableSNI per site; sni = '-' (plaintext) or hex
//	out = site TAB idx | forbidden | notfound TAB status
//
// The real code path: httpserver.NewServer with TLS-enabled sites and one marker middleware per
// site, Server.ServeHTTP with r.TLS.ServerName = sni.
func c06SniEval(f []string) (string, []string) {
	if len(f) != 5 {
		return "bad-case", nil
	}
	sites := c01ParseSites(f[0])
	var auth []int
	var disable []bool
	if f[1] != "" {
		for _, e := range strings.Split(f[1], ";") {
			p := strings.Split(e, "|")
			a, _ := strconv.Atoi(p[0])
			auth = append(auth, a)
			disable = append(disable, p[1] == "1")
		}
	}
	if len(auth) != len(sites) {
		return "bad-case", nil
	}
	host, path := hx.UnHS(f[2]), hx.UnHS(f[3])
	var ran []int
	group := make([]*httpserver.SiteConfig, len(sites))
	for i, s := range sites {
		sc := &httpserver.SiteConfig{
			Addr: httpserver.Address{Original: s.key, Host: s.addrHost},
			TLS: &caskettls.Config{Hostname: fmt.Sprintf("site%d.invalid", i), Enabled: f[4] != "-",
				ClientAuth: tls.ClientAuthType(auth[i]), InsecureDisableSNIMatching: disable[i]},
			FallbackSite: s.fallback,
		}
		idx := i
		sc.AddMiddleware(func(next httpserver.Handler) httpserver.Handler {
			return httpserver.HandlerFunc(func(w http.ResponseWriter, r *http.Request) (int, error) {
				ran = append(ran, idx)
				w.WriteHeader(200)
				return 0, nil
			})
		})
		group[i] = sc
	}
	srv, err := httpserver.NewServer("127.0.0.1:0", group)
	if err != nil {
		return "setup-error:" + err.Error(), nil
	}
	req := &http.Request{Method: "GET", Host: host, URL: &url.URL{Path: path}, Proto: "HTTP/1.1", ProtoMajor: 1, ProtoMinor: 1,
		Header: http.Header{}, RemoteAddr: "192.0.2.1:4000", RequestURI: path}
	tags := []string{fmt.Sprintf("sites=%d", len(sites))}
	if f[4] != "-" {
		req.TLS = &tls.ConnectionState{ServerName: hx.UnHS(f[4])}
		tags = append(tags, "tls")
	} else {
		tags = append(tags, "trivial-plaintext")
	}
	rec := httptest.NewRecorder()
	srv.ServeHTTP(rec, req)
	switch {
	case len(ran) == 1 && rec.Code == 200:
		if auth[ran[0]] != 0 {
			tags = append(tags, "served-by-clientauth-site")
		} else {
			tags = append(tags, "served-by-open-site")
		}
		return "site\t" + strconv.Itoa(ran[0]), tags
	case len(ran) == 0 && rec.Code == 403:
		return "forbidden", append(tags, "forbidden")
	case len(ran) == 0:
		return "notfound\t" + strconv.Itoa(rec.Code), append(tags, "notfound")
	}
	return fmt.Sprintf("unexpected:ran=%d,status=%d", len(ran), rec.Code), tags
}

func c06SniGen(g *hx.Gen) {
	mk := func(key string) c01Site { return c01Site{key, false, c01AddrHost(key)} }
	sets := [][]string{
		{"a.com", "b.com"},
		{"a.com", "*.a.com", ""},
		{"secure.a.com", "*.a.com/x", "0.0.0.0"},
		{"[::1]:8443", "a.com:8443"},
	}
	hosts := []string{"a.com", "A.COM", "a.com:8443", "b.com", "x.a.com", "secure.a.com", "zzz", "[::1]:8443", "[::1]", ""}
	snis := []string{"-", "a.com", "A.com", "b.com", "x.a.com", "secure.a.com", "", "::1", "[::1]", "a.com:8443", "zzz"}
	auths := []int{0, 1, 2, 3, 4}
	for _, set := range sets {
		sites := make([]c01Site, len(set))
		for i, k := range set {
			sites[i] = mk(k)
		}
		// every assignment of {open, client-auth, client-auth with the check disabled} to the sites
		n := len(set)
		total := 1
		for i := 0; i < n; i++ {
			total *= 3
		}
		for m := 0; m < total; m++ {
			cfg := make([]string, n)
			x := m
			for i := 0; i < n; i++ {
				switch x % 3 {
				case 0:
					cfg[i] = "0|0"
				case 1:
					cfg[i] = fmt.Sprintf("%d|0", auths[1+(m+i)%4])
				default:
					cfg[i] = "4|1"
				}
				x /= 3
			}
			for _, h := range hosts {
				for _, s := range snis {
					sn := "-"
					if s != "-" {
						sn = hx.HS(s)
					}
					for _, p := range []string{"/", "/x/y"} {
						g.Case(c01EncSites(sites), strings.Join(cfg, ";"), hx.HS(h), hx.HS(p), sn)
					}
				}
			}
		}
	}
	N := 3000
	if g.Thorough() {
		N = 60000
	}
	names := []string{"a.com", "b.com", "x.a.com", "*.a.com", "", "c.org", "*.org"}
	for it := 0; it < N; it++ {
		n := 1 + g.Rng.Intn(5)
		sites := make([]c01Site, n)
		cfg := make([]string, n)
		for i := range sites {
			sites[i] = mk(hx.Pick(g.Rng, names) + hx.Pick(g.Rng, []string{"", ":8443", "/x"}))
			cfg[i] = fmt.Sprintf("%d|%s", g.Rng.Intn(5)*g.Rng.Intn(2), b01(g.Rng.Chance(1, 4)))
		}
		h := hx.Pick(g.Rng, []string{"a.com", "b.com", "x.a.com", "y.org", "c.org", "q"})
		sn := h
		if g.Rng.Chance(1, 2) {
			sn = hx.Pick(g.Rng, []string{"a.com", "b.com", "x.a.com", "y.org", "", "c.org"})
		}
		if g.Rng.Chance(1, 3) {
			sn = strings.ToUpper(sn)
		}
		if g.Rng.Chance(1, 3) {
			h += ":8443"
		}
		snf := hx.HS(sn)
		if g.Rng.Chance(1, 10) {
			snf = "-"
		}
		g.Case(c01EncSites(sites), strings.Join(cfg, ";"), hx.HS(h), hx.HS(hx.Pick(g.Rng, []string{"/", "/x", "/x/y"})), snf)
	}
}

func init() {
	hx.Register(&hx.Stream{ID: "C06", Name: "c06.snihost", Gen: c06SniGen, Eval: c06SniEval, Setup: func() error { log.SetOutput(io.Discard); return nil }})
}

// c06.connect  aesni  sites  cfgs  namehex  pathhex
//
//	one client name used as SNI and as Host against httpserver.NewServer(sites with TLS settings):
//	out = <err:n | plain | nil | any | cfg TAB idx> TAB || TAB <site TAB idx | forbidden | notfound TAB status>
func c06ConnectEval(f []string) (string, []string) {
	if len(f) != 5 {
		return "bad-case", nil
	}
	name := hx.UnHS(f[3])
	return c06ConnRun(f[0], f[1], f[2], name, name, hx.UnHS(f[4]))
}

// c06ConnRun builds the real listener (httpserver.NewServer over sites whose TLS.Hostname is the
// site's Addr.Host, as InspectServerBlocks sets it), asks its tls.Config which config governs a
// ClientHello for `sni`, then sends a request with Host `host` over a connection whose
// ConnectionState carries `sni` through Server.ServeHTTP.
func c06ConnRun(aesniField, sitesField, cfgsField, sni, host, path string) (string, []string) {
	sites := c01ParseSites(sitesField)
	cfgs := c06ParseCfgs(cfgsField)
	if len(sites) != len(cfgs) {
		return "bad-case", nil
	}
	if !c06AesniOK(aesniField, cfgs) {
		return "bad-case:aesni field does not describe this CPU", nil
	}
	var ran []int
	group := make([]*httpserver.SiteConfig, len(sites))
	configs := make([]*caskettls.Config, len(sites))
	for i, s := range sites {
		c := cfgs[i]
		c.host = s.addrHost
		configs[i] = c06Real(c)
		if c.enabled {
			caskettls.SetDefaultTLSParams(configs[i])
		}
		sc := &httpserver.SiteConfig{Addr: httpserver.Address{Original: s.key, Host: s.addrHost}, TLS: configs[i], FallbackSite: s.fallback}
		idx := i
		sc.AddMiddleware(func(next httpserver.Handler) httpserver.Handler {
			return httpserver.HandlerFunc(func(w http.ResponseWriter, r *http.Request) (int, error) {
				ran = append(ran, idx)
				w.WriteHeader(200)
				return 0, nil
			})
		})
		group[i] = sc
	}
	tags := []string{fmt.Sprintf("sites=%d", len(sites))}
	srv, err := httpserver.NewServer("127.0.0.1:0", group)
	if err != nil {
		cls := "1"
		switch {
		case strings.Contains(err.Error(), "cannot multiplex"):
			cls = "0"
		case strings.Contains(err.Error(), "incompatible TLS configurations"):
			cls = "2"
		}
		return "err:" + cls + "\t||\tnotfound\t0", append(tags, "trivial-rejected")
	}
	sel := "plain"
	req := &http.Request{Method: "GET", Host: host, URL: &url.URL{Path: path}, Proto: "HTTP/1.1", ProtoMajor: 1, ProtoMinor: 1,
		Header: http.Header{}, RemoteAddr: "192.0.2.1:4000", RequestURI: path}
	if tc := srv.Server.TLSConfig; tc != nil {
		req.TLS = &tls.ConnectionState{ServerName: sni}
		hello := &tls.ClientHelloInfo{ServerName: sni}
		idx := -3
		for try := 0; try < 400; try++ {
			got, err := tc.GetConfigForClient(hello)
			if err != nil {
				return "getconfig-error", tags
			}
			cur := -1
			if got != nil {
				cur = -2
				for i, rc := range configs {
					if caskettls.VerifTLSConfig(rc) == got {
						cur = i
					}
				}
			}
			if try > 0 && cur != idx {
				idx = -4
				break
			}
			idx = cur
		}
		switch {
		case idx == -4:
			sel = "any"
			tags = append(tags, "random-failover")
		case idx == -1:
			sel = "nil"
		case idx < 0:
			sel = "foreign"
		default:
			sel = "cfg\t" + strconv.Itoa(idx)
		}
	} else {
		tags = append(tags, "trivial-plaintext")
	}
	rec := httptest.NewRecorder()
	srv.ServeHTTP(rec, req)
	served := fmt.Sprintf("unexpected:ran=%d,status=%d", len(ran), rec.Code)
	switch {
	case len(ran) == 1 && rec.Code == 200:
		served = "site\t" + strconv.Itoa(ran[0])
		if cfgs[ran[0]].clientAuth != 0 {
			tags = append(tags, "served-by-clientauth-site")
		}
	case len(ran) == 0 && rec.Code == 403:
		served = "forbidden"
	case len(ran) == 0:
		served = "notfound\t" + strconv.Itoa(rec.Code)
		tags = append(tags, "notfound")
	}
	return sel + "\t||\t" + served, tags
}

func c06ConnectGen(g *hx.Gen) {
	aes := b01(cpuid.CPU.AesNi())
	hostPats := []string{"a.com", "*.a.com", "b.a.com", "*.*.com", "", "0.0.0.0", "[::]", "*", "c.org", "*.org"}
	names := []string{"a.com", "A.com", "b.a.com", "x.a.com", "x.y.com", "c.org", "q.org", "zzz", "x.y.z.w"}
	policies := []c06Cfg{
		{enabled: true, alpn: []string{"h2", "http/1.1"}},
		{enabled: true, alpn: []string{"h2", "http/1.1"}, clientAuth: 4, clientCerts: []int{0}},
		{enabled: true, alpn: []string{"h2", "http/1.1"}, clientAuth: 4, clientCerts: []int{1}},
		{enabled: true, alpn: []string{"h2", "http/1.1"}, clientAuth: 2},
		{enabled: true, alpn: []string{"h2", "http/1.1"}, clientAuth: 4, clientCerts: []int{0}, disableSNI: true},
	}
	emit := func(sites []c01Site, cs []c06Cfg, name, path string) {
		g.Case(aes, c01EncSites(sites), c06EncCfgs(cs), hx.HS(name), hx.HS(path))
	}
	mk := func(key string) c01Site { return c01Site{key, false, c01AddrHost(key)} }
	// exhaustive: ordered pairs of host patterns x policy pairs x names
	for _, h1 := range hostPats {
		for _, h2 := range hostPats {
			if h1 == h2 {
				continue
			}
			for p1 := range policies {
				for p2 := range policies {
					for ni, n := range names {
						if !g.Thorough() && (p1+p2+ni)%3 != 0 {
							continue
						}
						emit([]c01Site{mk(h1 + ":443"), mk(h2 + ":443")}, []c06Cfg{policies[p1], policies[p2]}, n, "/")
					}
				}
			}
		}
	}
	// one host name split by path (host/admin and host/): the sites share the SNI key, so their client-auth
	// modes must agree exactly; all ordered mode pairs with the same CA list
	for m1 := 0; m1 <= 4; m1++ {
		for m2 := 0; m2 <= 4; m2++ {
			p1 := c06Cfg{enabled: true, alpn: []string{"h2", "http/1.1"}, clientAuth: m1, clientCerts: []int{0}}
			p2 := c06Cfg{enabled: true, alpn: []string{"h2", "http/1.1"}, clientAuth: m2, clientCerts: []int{0}}
			for _, n := range []string{"a.com", "A.com", "zzz"} {
				for _, pth := range []string{"/", "/admin/x"} {
					emit([]c01Site{mk("a.com:443/admin"), mk("a.com:443")}, []c06Cfg{p1, p2}, n, pth)
					emit([]c01Site{mk("a.com:443"), mk("b.com:443"), mk("a.com:443/admin")}, []c06Cfg{p1, policies[0], p2}, n, pth)
				}
			}
		}
	}
	// the exact-name site's address written with capitals (Addr.Original as written, TLS.Hostname lower case as the
	// loader derives it) beside a wildcard / catch-all / unrelated site: routing and TLS lookup still meet the same site
	for _, k1 := range []string{"B.A.COM:443", "B.a.com:443", "b.A.Com:443"} {
		for _, h2 := range []string{"*.a.com", "", "0.0.0.0", "c.org", "*.*.com"} {
			for p1 := range policies {
				for p2 := range policies {
					for _, n := range []string{"b.a.com", "B.A.com", "x.a.com"} {
						emit([]c01Site{mk(k1), mk(h2 + ":443")}, []c06Cfg{policies[p1], policies[p2]}, n, "/")
						emit([]c01Site{mk(h2 + ":443"), mk(k1)}, []c06Cfg{policies[p2], policies[p1]}, n, "/")
					}
				}
			}
		}
	}
	// the catch-all aliases must agree among themselves (repaired alias class) and with routing
	for _, trio := range [][]string{{":443", "0.0.0.0:443", "[::]:443"}, {"[::]:443", ":443"}, {"0.0.0.0:443/x", ":443"}} {
		for p1 := range policies {
			for _, n := range names {
				ss := make([]c01Site, len(trio))
				cs := make([]c06Cfg, len(trio))
				for i, k := range trio {
					ss[i] = mk(k)
					cs[i] = policies[0]
				}
				cs[len(cs)-1] = policies[p1]
				emit(ss, cs, n, "/x")
			}
		}
	}
	N := 3000
	if g.Thorough() {
		N = 80000
	}
	for it := 0; it < N; it++ {
		n := 1 + g.Rng.Intn(5)
		sites := make([]c01Site, n)
		cs := make([]c06Cfg, n)
		for i := range sites {
			key := hx.Pick(g.Rng, hostPats) + hx.Pick(g.Rng, []string{"", ":443", ":443/x", "/x/y"})
			if g.Rng.Chance(1, 4) {
				// the address written with capitals: Addr.Original keeps them, TLS.Hostname is what the loader derives (lower case)
				hp := strings.SplitN(key, "/", 2)
				hp[0] = strings.ToUpper(hp[0])
				key = strings.Join(hp, "/")
			}
			sites[i] = mk(key)
			cs[i] = policies[g.Rng.Intn(len(policies))]
			if g.Rng.Chance(3, 5) {
				cs[i] = policies[0]
			}
			if g.Rng.Chance(1, 40) {
				cs[i].enabled = false
			}
		}
		emit(sites, cs, hx.Pick(g.Rng, names), hx.Pick(g.Rng, []string{"/", "/x", "/x/y/z"}))
	}
}

func init() {
	hx.Register(&hx.Stream{ID: "C06", Name: "c06.connect", Gen: c06ConnectGen, Eval: c06ConnectEval, Setup: c06Setup, Teardown: c06Teardown})
}
