//go:build c19

package streams

import (
	"bufio"
	"bytes"
	"context"
	"encoding/hex"
	"io"
	"net"
	"net/http"
	"net/http/httptest"
	"net/textproto"
	"strconv"
	"strings"
	"time"
	"unicode"

	"github.com/tmpim/casket"
	"github.com/tmpim/casket/caskethttp/fastcgi"
	"github.com/tmpim/casket/caskethttp/httpserver"

	"verifharness/hx"
)

// c19.status: the Status header of a FastCGI responder — bytes chosen by a network peer — through
// the real FCGIClient.Request (canned record stream) and through the real fastcgi Handler.ServeHTTP
// (directive parsed from Casketfile text, a byte-level responder on the loopback interface that
// answers with the Status value named in the request's query string).
// field: hex of the header value as net/textproto delivers it.
// out = req=<err | code>;serve=<return of ServeHTTP>,<code given to WriteHeader | ->

var c19StatusLn net.Listener

func c19StatusSetup() error {
	ln, err := net.Listen("tcp", "127.0.0.1:0")
	if err != nil {
		return err
	}
	c19StatusLn = ln
	casket.AppName, casket.AppVersion = "Casket", "verif"
	go func() {
		for {
			conn, err := ln.Accept()
			if err != nil {
				return
			}
			go c19StatusRespond(conn)
		}
	}()
	return nil
}

func c19StatusRespond(conn net.Conn) {
	defer conn.Close()
	conn.SetDeadline(time.Now().Add(20 * time.Second))
	br := bufio.NewReader(conn)
	var params []byte
	var id uint16
	done := false
	for !done {
		h := make([]byte, 8)
		if _, err := io.ReadFull(br, h); err != nil {
			return
		}
		cl, pl := int(h[4])<<8|int(h[5]), int(h[6])
		body := make([]byte, cl+pl)
		if _, err := io.ReadFull(br, body); err != nil {
			return
		}
		id = uint16(h[2])<<8 | uint16(h[3])
		switch h[1] {
		case 4:
			params = append(params, body[:cl]...)
		case 5:
			done = cl == 0
		}
	}
	pairs, _ := fcgiPairs(params)
	val := []byte{}
	for _, p := range pairs {
		if p[0] == "QUERY_STRING" {
			val, _ = hex.DecodeString(strings.TrimPrefix(p[1], "v="))
		}
	}
	conn.Write(c19StatusRecords(val, id))
}

// c19StatusRecords is the responder's answer: a header block with the Status value, a body.
func c19StatusRecords(val []byte, id uint16) []byte {
	payload := append([]byte("Status: "), val...)
	payload = append(payload, "\r\nContent-Type: text/plain\r\n\r\nbody"...)
	b := fcgiRec(6, id, payload, 3)
	b = append(b, fcgiRec(6, id, nil, 0)...)
	return append(b, fcgiRec(3, id, make([]byte, 8), 0)...)
}

// c19StatusCanon is the value textproto's header reader delivers for raw (ok = it accepts the header).
func c19StatusCanon(raw string) (string, bool) {
	h, err := textproto.NewReader(bufio.NewReader(strings.NewReader("Status: " + raw + "\r\nContent-Type: text/plain\r\n\r\n"))).ReadMIMEHeader()
	if err != nil || len(h) != 2 || len(h["Status"]) != 1 {
		return "", false
	}
	return h.Get("Status"), true
}

type c19StatusWriter struct {
	*httptest.ResponseRecorder
	wrote string
}

func (w *c19StatusWriter) WriteHeader(code int) {
	if w.wrote == "-" {
		w.wrote = strconv.Itoa(code)
	}
	w.ResponseRecorder.WriteHeader(code)
}

func init() {
	hx.Register(&hx.Stream{ID: "C19", Name: "c19.status",
		Setup:    c19StatusSetup,
		Teardown: func() { c19StatusLn.Close() },
		Gen: func(g *hx.Gen) {
			r := g.Rng
			seen := map[string]bool{}
			emit := func(raw string) {
				v, ok := c19StatusCanon(raw)
				if !ok || seen[v] {
					return
				}
				seen[v] = true
				g.Case(hx.HS(v))
			}
			for _, v := range []string{"", " ", "  ", "\t", "200 OK", "200", "404 Not Found", "302", "500 ", "201  Two  Spaces", "200  OK", "200   ", "2 00",
				"abc", "abc def", "OK 200", "99", "099 x", "0", "00", "1", "-1", "-200 OK", "+200", "+200 OK", "+", "-", "+ 200", "100", "101 Switching", "999", "1000",
				"0200", "000000000000000000000000404 x", "65736", "4294967496", "99999999999999999999", "9223372036854775807", "9223372036854775808",
				"-9223372036854775808", "-9223372036854775809", "18446744073709551816", "200\tOK", "\t200 OK\t", "0x10", "1_000", "2_00 OK", "1e3", "2.0", "٣٠٠", "２００ OK",
				"\u00a0", "\u0085", "\u2003", "\u3000", "\u1680", "\u2000", "\u2009", "\u200a", "\u2028", "\u2029", "\u202f", "\u205f", "\ufeff", "\u200b",
				"\u00a0\u0085", "\u00a0 \u0085", "\u00a0 \u00a0 \u00a0", "\u0085\u0085\u0085", "200\u00a0OK", "\u00a0200 OK", "200 \u00a0", "\u2003 200", "200\u0085", "\u0085200",
				"\xc2", "\xa0", "\x85", "\xff", "\xe2\x80", "200 \xff\xfe", "\x7f", "200 OK\x7f", strings.Repeat("9", 300), strings.Repeat(" ", 40) + "x", strings.Repeat("\u00a0", 100),
				"200 " + strings.Repeat("long reason ", 200)} {
				emit(v)
			}
			// every string of <= 3 atoms (thorough: 4)
			atoms := []string{"2", "0", "9", " ", "\u00a0", "\u0085", "-", "a"}
			depth := 3
			if g.Thorough() {
				depth = 4
			}
			var rec func(pre string, d int)
			rec = func(pre string, d int) {
				emit(pre)
				if d == 0 {
					return
				}
				for _, a := range atoms {
					rec(pre+a, d-1)
				}
			}
			rec("", depth)
			n := 600
			if g.Thorough() {
				n = 40000
			}
			pieces := []string{"200", "404", "99", "1000", "0", "-", "+", " ", "  ", "\t", "OK", "Not Found", "\u00a0", "\u0085", "\u2003", "\u3000", "\u2028", "\x00", "\x0b", "\x0c", "\r", "\xff", "\xc2", "7", "_", "x"}
			for i := 0; i < n; i++ {
				var s strings.Builder
				for k := r.Intn(5); k > 0; k-- {
					s.WriteString(hx.Pick(r, pieces))
				}
				emit(s.String())
			}
		},
		Eval: func(f []string) (string, []string) {
			val := hx.UnHS(f[0])
			tags := []string{}
			switch {
			case val == "":
				tags = append(tags, "trivial-no-status")
			case strings.TrimFunc(val, func(c rune) bool { return c == ' ' || c == '\t' }) != val:
				tags = append(tags, "trivial-not-canonical")
			case len(strings.Fields(val)) == 0:
				tags = append(tags, "only-unicode-space")
			case strings.IndexFunc(val, func(c rune) bool { return c > 0x7f && unicode.IsSpace(c) }) >= 0:
				tags = append(tags, "unicode-space")
			case !strings.Contains(val, " "):
				tags = append(tags, "one-word")
			default:
				tags = append(tags, "code-and-reason")
			}
			out := c19Guard(func() string {
				// FCGIClient.Request over the canned records
				c := fastcgi.VerifNewClient(&fcgiRWC{r: bytes.NewReader(c19StatusRecords([]byte(val), 1))}, 1)
				resp, err := c.Request(map[string]string{"REQUEST_METHOD": "GET"}, nil)
				reqOut := "err"
				if err == nil && resp != nil {
					if resp.Header.Get("Status") != val {
						return "bad-case:textproto delivered " + hx.HS(resp.Header.Get("Status"))
					}
					reqOut = strconv.Itoa(resp.StatusCode) // resp.Status is not compared: ServeHTTP never uses it
					if resp.Body != nil {
						io.Copy(io.Discard, resp.Body)
					}
				}
				// Handler.ServeHTTP against the loopback responder
				ctl := casket.NewTestController("http", "fastcgi / "+c19StatusLn.Addr().String())
				action, err := casket.DirectiveAction("http", "fastcgi")
				if err != nil {
					return "setup-error:" + err.Error()
				}
				if err := action(ctl); err != nil {
					return "setup-error:" + err.Error()
				}
				req, err := http.ReadRequest(bufio.NewReader(strings.NewReader("GET /x.php?v=" + hex.EncodeToString([]byte(val)) + " HTTP/1.1\r\nHost: example.test\r\n\r\n")))
				if err != nil {
					return "setup-error:" + err.Error()
				}
				req = req.WithContext(context.WithValue(req.Context(), httpserver.OriginalURLCtxKey, *req.URL))
				h := httpserver.GetConfig(ctl).Middleware()[0](httpserver.HandlerFunc(func(w http.ResponseWriter, r *http.Request) (int, error) { return 0, nil }))
				w := &c19StatusWriter{ResponseRecorder: httptest.NewRecorder(), wrote: "-"}
				ret, _ := h.ServeHTTP(w, req)
				return "req=" + reqOut + ";serve=" + strconv.Itoa(ret) + "," + w.wrote
			})
			if strings.Contains(out, "req=err") {
				tags = append(tags, "atoi-error")
			} else if strings.Contains(out, "serve=502") {
				tags = append(tags, "code-out-of-range")
			}
			return out, c19Tags(out, tags...)
		}})
}
