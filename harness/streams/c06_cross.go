//go:build c06

package streams

import (
	"strings"

	"github.com/klauspost/cpuid"

	"verifharness/hx"
)

// c06.cross  aesni  sites  cfgs  snihex  hosthex  pathhex
//
//	c06.connect with the two names of a connection taken apart: the ClientHello carries `sni`, the
//	request sent over that connection carries Host `host`.  Sites and configs as in c06.connect
//	(TLS.Hostname = the site's Addr.Host, real SetDefaultTLSParams + NewServer/MakeTLSConfig).
//	out = <err:n | plain | nil | any | cfg TAB idx> TAB || TAB <site TAB idx | forbidden | notfound TAB status>
//
// What it is for: a handshake made under the name of one site (governed by THAT site's
// client-certificate policy) followed by a request for another site of the same listener.  The
// site sets are the ones where the TLS lookup and the request routing can part: a general pattern
// (wildcard, two-label wildcard, catch-all) next to a more specific one (exact name, narrower
// wildcard) under it, client certificates demanded by either, both declaration orders; SNI and Host
// each range over {the specific name, another name under the wildcard, names outside it, empty}.
func c06CrossEval(f []string) (string, []string) {
	if len(f) != 6 {
		return "bad-case", nil
	}
	sni, host := hx.UnHS(f[3]), hx.UnHS(f[4])
	out, tags := c06ConnRun(f[0], f[1], f[2], sni, host, hx.UnHS(f[5]))
	if c01AddrHost(host) == c01AddrHost(sni) {
		tags = append(tags, "sni=host")
	} else {
		tags = append(tags, "sni!=host")
	}
	return out, tags
}

func c06CrossGen(g *hx.Gen) {
	aes := b01(cpuid.CPU.AesNi())
	alpn := []string{"h2", "http/1.1"}
	policies := []c06Cfg{
		{enabled: true, alpn: alpn},
		{enabled: true, alpn: alpn, clientAuth: 4, clientCerts: []int{0}},
		{enabled: true, alpn: alpn, clientAuth: 2},
		{enabled: true, alpn: alpn, clientAuth: 4, clientCerts: []int{0}, disableSNI: true},
	}
	emit := func(keys []string, cs []c06Cfg, sni, host, path string) {
		sites := make([]c01Site, len(keys))
		for i, k := range keys {
			sites[i] = c01Site{k, false, c01AddrHost(k)}
		}
		g.Case(aes, c01EncSites(sites), c06EncCfgs(cs), hx.HS(sni), hx.HS(host), hx.HS(path))
	}
	// SNI / Host values: the specific name, other names under *.a.com, under *.*.com only, outside, empty
	snis := []string{"b.a.com", "x.a.com", "B.A.com", "a.com", "x.y.com", "c.org", "zzz", ""}
	hosts := []string{"b.a.com", "x.a.com", "X.A.COM", "a.com", "x.y.com", "c.org", "zzz", "", "b.a.com:443", "x.a.com:443"}

	// 1. general pattern + more specific pattern (and two controls where neither covers the other),
	//    both declaration orders, every policy pair, every SNI x Host
	pairs := [][2]string{
		{"*.a.com", "b.a.com"}, {"*.*.com", "b.a.com"}, {"*.*.com", "*.a.com"},
		{"", "b.a.com"}, {"", "*.a.com"}, {"0.0.0.0", "b.a.com"}, {"[::]", "*.a.com"},
		{"*.a.com", "a.com"}, {"b.a.com", "x.a.com"}, {"b.a.com", "c.org"},
	}
	for _, pr := range pairs {
		for order := 0; order < 2; order++ {
			k1, k2 := pr[0]+":443", pr[1]+":443"
			if order == 1 {
				k1, k2 = k2, k1
			}
			for p1 := range policies {
				for p2 := range policies {
					for _, s := range snis {
						for _, h := range hosts {
							emit([]string{k1, k2}, []c06Cfg{policies[p1], policies[p2]}, s, h, "/")
						}
					}
				}
			}
		}
	}
	// 2. exact + wildcard + catch-all on one listener, all six declaration orders, policies
	//    {open, client certificates} per site (quick: SNI/Host thinned by a fixed stride; thorough: all)
	trio := []string{"b.a.com:443", "*.a.com:443", ":443"}
	perms := [][3]int{{0, 1, 2}, {0, 2, 1}, {1, 0, 2}, {1, 2, 0}, {2, 0, 1}, {2, 1, 0}}
	for pi, pm := range perms {
		for m := 0; m < 27; m++ {
			cs := []c06Cfg{policies[m%3], policies[m/3%3], policies[m/9%3]}
			keys := []string{trio[pm[0]], trio[pm[1]], trio[pm[2]]}
			for si, s := range snis {
				for hi, h := range hosts {
					if !g.Thorough() && (pi+m+si+hi)%2 != 0 {
						continue
					}
					emit(keys, cs, s, h, "/")
				}
			}
		}
	}
	// 3. the client-certificate part of a host split by path next to an open sibling: the wildcard site
	//    holds /admin only, so Host routing and TLS lookup meet different sites of one SNI key
	for p1 := 1; p1 < len(policies); p1++ {
		for _, s := range snis {
			for _, h := range hosts {
				for _, pth := range []string{"/", "/admin/x"} {
					emit([]string{"*.a.com:443/admin", "*.a.com:443", "b.a.com:443"}, []c06Cfg{policies[p1], policies[p1], policies[0]}, s, h, pth)
					emit([]string{"b.a.com:443", "*.a.com:443/admin", ":443"}, []c06Cfg{policies[0], policies[p1], policies[0]}, s, h, pth)
				}
			}
		}
	}
	// 4. seeded random site sets (no bare `*` host: that class is the known finding judged in c06.connect)
	N := 3000
	if g.Thorough() {
		N = 80000
	}
	hostPats := []string{"a.com", "*.a.com", "b.a.com", "x.a.com", "*.*.com", "", "0.0.0.0", "[::]", "c.org", "*.org"}
	names := []string{"a.com", "b.a.com", "x.a.com", "y.a.com", "x.y.com", "c.org", "q.org", "zzz", ""}
	for it := 0; it < N; it++ {
		n := 2 + g.Rng.Intn(4)
		keys := make([]string, n)
		cs := make([]c06Cfg, n)
		for i := range keys {
			keys[i] = hx.Pick(g.Rng, hostPats) + hx.Pick(g.Rng, []string{"", ":443", ":443/x"})
			if g.Rng.Chance(1, 4) {
				// written with capitals (the path stays as it is): TLS.Hostname is the lower-case host the loader derives
				hp := strings.SplitN(keys[i], "/", 2)
				hp[0] = strings.ToUpper(hp[0])
				keys[i] = strings.Join(hp, "/")
			}
			cs[i] = policies[g.Rng.Intn(len(policies))]
			if g.Rng.Chance(1, 2) {
				cs[i] = policies[0]
			}
		}
		s := hx.Pick(g.Rng, names)
		h := hx.Pick(g.Rng, names)
		if g.Rng.Chance(1, 4) {
			h = s
		}
		if g.Rng.Chance(1, 4) {
			h += ":443"
		}
		emit(keys, cs, s, h, hx.Pick(g.Rng, []string{"/", "/x", "/x/y"}))
	}
}

func init() {
	hx.Register(&hx.Stream{ID: "C06", Name: "c06.cross", Gen: c06CrossGen, Eval: c06CrossEval, Setup: c06Setup, Teardown: c06Teardown})
}
