//go:build c16

package streams

import (
	"bufio"
	"fmt"
	"io"
	"log"
	"os"
	"os/exec"
	"sort"
	"strings"
	"syscall"
	"time"

	"github.com/tmpim/casket"

	"verifharness/hx"
)

// c16.signal  op op …  !<signals>            REAL signals delivered to a CHILD process (exploration of the signal path)
//
//   ops      as in c16.trace (S:<cfg>, R:<cfg>): the child executes them with the fake server type, then calls
//            casket.TrapSignals(), prints READY and waits
//   signals  comma list of TERM | INT | QUIT | HUP, sent to the child back to back
//            (only combinations whose outcome does not depend on a race: a single deciding signal, repeated, or preceded by HUP)
//
//   out = <result of every op: ok|err|noinst>;<events the child recorded after READY>;exit=<exit code>
//
// The child is this very binary re-executed with VERIF_C16_CHILD set; the handlers under test are casket's own
// (sigtrap.go, sigtrap_posix.go), including their os.Exit.

const c16ChildEnv = "VERIF_C16_CHILD"

func init() {
	spec := os.Getenv(c16ChildEnv)
	if spec == "" {
		hx.Register(&hx.Stream{ID: "C16", Name: "c16.signal", Gen: c16SignalGen, Eval: c16SignalEval, Serial: true})
		return
	}
	// ---- child ----
	log.SetOutput(io.Discard)
	casket.Quiet = true
	c16rec.sink = os.Stdout
	gen := 0
	for _, opS := range strings.Split(spec, "\t") {
		gen++
		cfg, ok := c16ParseCfg(opS[2:])
		if !ok {
			fmt.Println("BADSPEC")
			os.Exit(3)
		}
		res := "ok"
		switch opS[0] {
		case 'S':
			if _, err := casket.Start(c16Input(gen, cfg)); err != nil {
				res = "err"
			}
		case 'R':
			if insts := casket.Instances(); len(insts) > 0 {
				if _, err := insts[0].Restart(c16Input(gen, cfg)); err != nil {
					res = "err"
				}
			} else {
				res = "noinst"
			}
		}
		c16rec.mu.Lock()
		os.Stdout.WriteString("RES " + res + "\n")
		c16rec.mu.Unlock()
	}
	// give the Serve goroutines of the live instances the time to start before the signals come
	for _, s := range snapshotServers() {
		select {
		case <-s.served:
		case <-time.After(20 * time.Millisecond):
		}
	}
	casket.TrapSignals()
	time.Sleep(5 * time.Millisecond) // let signal.Notify of both handler goroutines take effect
	os.Stdout.WriteString("READY\n")
	select {}
}

func c16SignalEval(f []string) (string, []string) {
	if len(f) < 1 || !strings.HasPrefix(f[len(f)-1], "!") {
		return "bad-case", nil
	}
	ops := f[:len(f)-1]
	for _, o := range ops {
		if len(o) < 2 || (o[0] != 'S' && o[0] != 'R') || o[1] != ':' {
			return "bad-case", nil
		}
		if _, ok := c16ParseCfg(o[2:]); !ok {
			return "bad-case", nil
		}
	}
	var sigs []syscall.Signal
	for _, s := range strings.Split(f[len(f)-1][1:], ",") {
		switch s {
		case "TERM":
			sigs = append(sigs, syscall.SIGTERM)
		case "INT":
			sigs = append(sigs, syscall.SIGINT)
		case "QUIT":
			sigs = append(sigs, syscall.SIGQUIT)
		case "HUP":
			sigs = append(sigs, syscall.SIGHUP)
		default:
			return "bad-case", nil
		}
	}
	decides := false
	for _, s := range sigs {
		if s != syscall.SIGHUP {
			decides = true
		}
	}
	if !decides || len(ops) == 0 {
		return "bad-case", nil // nothing would ever end the child
	}
	self, err := os.Executable()
	if err != nil {
		return "setup-error:" + err.Error(), nil
	}
	cmd := exec.Command(self, "list")
	cmd.Env = append(os.Environ(), c16ChildEnv+"="+strings.Join(ops, "\t"))
	out, err := cmd.StdoutPipe()
	if err != nil {
		return "setup-error:" + err.Error(), nil
	}
	if err := cmd.Start(); err != nil {
		return "setup-error:" + err.Error(), nil
	}
	lines := make(chan string, 1024)
	go func() {
		sc := bufio.NewScanner(out)
		for sc.Scan() {
			lines <- sc.Text()
		}
		close(lines)
	}()
	ready := false
	var results []string
	deadline := time.After(c16PatienceMax)
wait:
	for {
		select {
		case l, ok := <-lines:
			if !ok {
				break wait
			}
			if l == "READY" {
				ready = true
				break wait
			}
			if strings.HasPrefix(l, "RES ") {
				results = append(results, l[4:])
			}
		case <-deadline:
			break wait
		}
	}
	if !ready {
		cmd.Process.Kill()
		cmd.Wait()
		return "child-not-ready", nil
	}
	overlapping := false // a burst with both SIGINT and SIGTERM: sent 30 ms apart so that the second arrives while the
	// (slow) shutdown callbacks of the first are running; which handler exits the process first is a race, so the Stop
	// events of the SIGTERM handler are not reported for such a burst
	hasI, hasT := false, false
	for _, s := range sigs {
		hasI = hasI || s == syscall.SIGINT
		hasT = hasT || s == syscall.SIGTERM
	}
	overlapping = hasI && hasT
	for i, s := range sigs {
		if overlapping && i > 0 {
			time.Sleep(30 * time.Millisecond)
		}
		cmd.Process.Signal(s)
	}
	var evs []string
	timedOut := false
	deadline = time.After(c16PatienceMax)
collect:
	for {
		select {
		case l, ok := <-lines:
			if !ok {
				break collect
			}
			if overlapping && strings.HasPrefix(l, "st") {
				continue
			}
			evs = append(evs, l)
		case <-deadline:
			timedOut = true
			cmd.Process.Kill()
			break collect
		}
	}
	err = cmd.Wait()
	code := 0
	if ee, ok := err.(*exec.ExitError); ok {
		code = ee.ExitCode()
	}
	exit := fmt.Sprintf("exit=%d", code)
	if timedOut {
		exit = "exit=timeout"
	}
	tags := []string{"sig-" + f[len(f)-1][1:], fmt.Sprintf("ops=%d", len(ops))}
	sort.Strings(tags)
	return strings.Join(results, ",") + ";" + strings.Join(evs, ",") + ";" + exit, tags
}

func c16SignalGen(g *hx.Gen) {
	setups := [][]string{
		{"S:f1/-/"}, {"S:f1,n2,p3/-/"}, {"S:/-/"}, {"S:f1/-/s"},
		{"S:f1/-/", "R:f1,f2/-/"}, {"S:f1/-/", "R:f1/setup/"}, {"S:f1/-/", "S:n2/-/"},
		{"S:f1/-/", "R:f2/-/", "R:f2,f3/-/s"}, {"S:f1/startup/"}, {"S:f1/-/", "S:f2/-/s", "R:f1/-/"},
	}
	signals := []string{"TERM", "INT", "QUIT", "TERM,TERM,TERM", "HUP,TERM", "HUP,HUP,INT", "TERM,TERM,TERM,TERM,TERM,TERM,TERM,TERM"}
	// a second shutdown signal of the other kind arriving WHILE the callbacks of the first are still running
	for _, s := range [][]string{{"S:f1/-/w"}, {"S:f1,n2/-/w", "S:f3/-/"}, {"S:f1/-/", "R:f1,f2/-/w"}} {
		g.Case(append(append([]string(nil), s...), "!INT,TERM")...)
		g.Case(append(append([]string(nil), s...), "!TERM,INT")...)
	}
	if !g.Thorough() {
		for i, s := range setups {
			for j, sg := range signals {
				if (i+j)%2 == 0 || j < 2 {
					g.Case(append(append([]string(nil), s...), "!"+sg)...)
				}
			}
		}
	} else {
		for _, s := range setups {
			for _, sg := range signals {
				g.Case(append(append([]string(nil), s...), "!"+sg)...)
			}
		}
		for it := 0; it < 150; it++ {
			L := 1 + g.Rng.Intn(4)
			ops := []string{"S:" + c16RandCfg(g.Rng).String()}
			for i := 1; i < L; i++ {
				if g.Rng.Chance(1, 4) {
					ops = append(ops, "S:"+c16RandCfg(g.Rng).String())
				} else {
					ops = append(ops, "R:"+c16RandCfg(g.Rng).String())
				}
			}
			g.Case(append(ops, "!"+hx.Pick(g.Rng, signals))...)
		}
	}
	for _, m := range [][]string{{"!TERM,BOGUS"}, {"S:f1/-/"}, {"X", "!TERM"}, {"S:f1/-/", "!"}, {"S:f1/-/", "!HUP"}, {"!TERM"}} {
		g.Case(m...)
	}
}
