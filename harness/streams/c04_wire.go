//go:build c04

package streams

import (
	"bufio"
	"bytes"
	"fmt"
	"io"
	"net"
	"net/http"
	"net/http/httptest"
	"net/url"
	"strconv"
	"strings"
	"sync"
	"sync/atomic"
	"time"

	"github.com/tmpim/casket/casketfile"
	"github.com/tmpim/casket/caskethttp/httpserver"
	"github.com/tmpim/casket/caskethttp/proxy"

	"verifharness/hx"
)

// c04.wire  method path rawpath query bodyLen bodySeed chunk upstream status respLen respSeed respChunked announced unannounced
//   a real client socket -> real net/http server running proxy.Proxy.ServeHTTP -> real http.Transport -> real backend server.
//   chunk     0 = Content-Length framing, n > 0 = chunked transfer coding with chunks of n bytes
//   upstream  A: proxy / backend          B: proxy /api backend/base { without /api }
//             C: proxy /buf backend backend { try_duration 2s }   (request bodies are buffered for retries)
//   out = method TAB path-at-backend TAB query-at-backend TAB request-body(same|differs) TAB request-framing-at-backend(cl=N|chunked)
//         TAB status TAB response-body TAB trailers
// This stream explores what the Lean model does not contain: net/http's parsing, framing, buffering and trailer
// delivery on both sides of the proxy code.

type c04WireSeen struct {
	method, path, query, body, framing string
}

var (
	c04WireBackend *httptest.Server
	c04WireFront   *httptest.Server
	c04WireUps     []proxy.Upstream
	c04WireMu      sync.Mutex
	c04WireSeenBy  = map[string]*c04WireSeen{}
	c04WireID      int64
)

func c04WireSetup() error {
	c04WireBackend = httptest.NewServer(http.HandlerFunc(func(w http.ResponseWriter, r *http.Request) {
		id := r.Header.Get("X-Verif-Case")
		f := strings.Split(r.Header.Get("X-Verif-Script"), "/")
		if len(f) != 8 {
			w.WriteHeader(599)
			return
		}
		bodyLen, _ := strconv.Atoi(f[0])
		bodySeed, _ := strconv.ParseUint(f[1], 10, 64)
		status, _ := strconv.Atoi(f[2])
		respLen, _ := strconv.Atoi(f[3])
		respSeed, _ := strconv.ParseUint(f[4], 10, 64)
		respChunked := f[5] == "1"
		announced := c04DecEntries(f[6])
		unannounced := c04DecEntries(f[7])
		got, err := io.ReadAll(r.Body)
		seen := &c04WireSeen{method: r.Method, path: r.URL.Path, query: r.URL.RawQuery, body: "same"}
		// the framing the proxy's transport chose towards the backend
		seen.framing = "cl=" + strconv.FormatInt(r.ContentLength, 10)
		if len(r.TransferEncoding) > 0 && r.TransferEncoding[0] == "chunked" {
			seen.framing = "chunked"
		}
		if err != nil || !bytes.Equal(got, c04Body(bodyLen, bodySeed)) {
			seen.body = fmt.Sprintf("differs(%d)", len(got))
		}
		c04WireMu.Lock()
		c04WireSeenBy[id] = seen
		c04WireMu.Unlock()
		for _, e := range announced {
			w.Header().Add("Trailer", e.k)
		}
		w.Header().Set("Content-Type", "application/octet-stream")
		body := c04Body(respLen, respSeed)
		if !respChunked {
			w.Header().Set("Content-Length", strconv.Itoa(respLen))
		}
		w.WriteHeader(status)
		if r.Method != "HEAD" && status != 204 && status != 304 {
			for off := 0; off < len(body); off += 10000 {
				end := off + 10000
				if end > len(body) {
					end = len(body)
				}
				w.Write(body[off:end])
				if respChunked {
					if fl, ok := w.(http.Flusher); ok {
						fl.Flush()
					}
				}
			}
		}
		if len(announced)+len(unannounced) > 0 {
			// trailers need chunked framing: commit to it even when nothing was written
			if fl, ok := w.(http.Flusher); ok {
				fl.Flush()
			}
		}
		for _, e := range announced {
			for _, v := range e.vv {
				w.Header().Add(e.k, v)
			}
		}
		for _, e := range unannounced {
			for _, v := range e.vv {
				w.Header().Add(http.TrailerPrefix+e.k, v)
			}
		}
	}))
	// block C has two backends (the same one twice) and retries on: its request bodies are buffered
	cfg := "proxy / " + c04WireBackend.URL + "\nproxy /api " + c04WireBackend.URL + "/base {\n without /api\n}\n" +
		"proxy /buf " + c04WireBackend.URL + " " + c04WireBackend.URL + " {\n try_duration 2s\n}\n"
	ups, err := proxy.NewStaticUpstreams(casketfile.NewDispenser("Testfile", strings.NewReader(cfg)), "")
	if err != nil || len(ups) != 3 {
		return fmt.Errorf("upstreams: %v", err)
	}
	c04WireUps = ups
	p := proxy.Proxy{Next: httpserver.EmptyNext, Upstreams: ups}
	c04WireFront = httptest.NewServer(http.HandlerFunc(func(w http.ResponseWriter, r *http.Request) {
		status, _ := p.ServeHTTP(w, r)
		if status != 0 {
			w.WriteHeader(status)
		}
	}))
	return nil
}

func c04WireTeardown() {
	if c04WireFront != nil {
		c04WireFront.Close()
	}
	if c04WireBackend != nil {
		c04WireBackend.Close()
	}
	for _, u := range c04WireUps {
		u.Stop()
	}
}

func c04WireEval(f []string) (string, []string) {
	if len(f) != 14 {
		return "bad-case", nil
	}
	method, rawTarget, query := hx.UnHS(f[0]), hx.UnHS(f[2]), hx.UnHS(f[3])
	if rawTarget == "" {
		rawTarget = (&url.URL{Path: hx.UnHS(f[1])}).EscapedPath()
	}
	bodyLen, _ := strconv.Atoi(f[4])
	bodySeed, _ := strconv.ParseUint(f[5], 10, 64)
	chunk, _ := strconv.Atoi(f[6])
	status, _ := strconv.Atoi(f[8])
	respLen, _ := strconv.Atoi(f[9])
	respSeed, _ := strconv.ParseUint(f[10], 10, 64)
	id := strconv.FormatInt(atomic.AddInt64(&c04WireID, 1), 10)
	script := strings.Join([]string{f[4], f[5], f[8], f[9], f[10], f[11], f[12], f[13]}, "/")
	target := rawTarget
	if query != "" {
		target += "?" + query
	}
	body := c04Body(bodyLen, bodySeed)
	var req bytes.Buffer
	fmt.Fprintf(&req, "%s %s HTTP/1.1\r\nHost: front.test\r\nX-Verif-Case: %s\r\nX-Verif-Script: %s\r\nConnection: close\r\n", method, target, id, script)
	if chunk == 0 {
		if bodyLen > 0 || method == "POST" || method == "PUT" {
			fmt.Fprintf(&req, "Content-Length: %d\r\n", bodyLen)
		}
		req.WriteString("\r\n")
		req.Write(body)
	} else {
		req.WriteString("Transfer-Encoding: chunked\r\n\r\n")
		for off := 0; off < len(body); off += chunk {
			end := off + chunk
			if end > len(body) {
				end = len(body)
			}
			fmt.Fprintf(&req, "%x\r\n", end-off)
			req.Write(body[off:end])
			req.WriteString("\r\n")
		}
		req.WriteString("0\r\n\r\n")
	}
	conn, err := net.DialTimeout("tcp", c04WireFront.Listener.Addr().String(), 5*time.Second)
	if err != nil {
		return "dial-error", nil
	}
	defer conn.Close()
	conn.SetDeadline(time.Now().Add(30 * time.Second))
	go func() { conn.Write(req.Bytes()) }()
	resp, err := http.ReadResponse(bufio.NewReader(conn), &http.Request{Method: method})
	if err != nil {
		return "read-error:" + strings.SplitN(err.Error(), ":", 2)[0], nil
	}
	got, err := io.ReadAll(resp.Body)
	resp.Body.Close()
	rb := "same"
	want := c04Body(respLen, respSeed)
	if method == "HEAD" || status == 204 || status == 304 {
		want = nil
	}
	if err != nil || !bytes.Equal(got, want) {
		rb = fmt.Sprintf("differs(%d)", len(got))
	}
	c04WireMu.Lock()
	seen := c04WireSeenBy[id]
	delete(c04WireSeenBy, id)
	c04WireMu.Unlock()
	if seen == nil {
		return "backend-not-reached:" + strconv.Itoa(resp.StatusCode), nil
	}
	out := strings.Join([]string{hx.HS(seen.method), hx.HS(seen.path), hx.HS(seen.query), seen.body, seen.framing, strconv.Itoa(resp.StatusCode), rb, c04ShowHeader(resp.Trailer)}, "\t")
	tags := []string{"upstream=" + f[7], "framing-to-backend=" + strings.SplitN(seen.framing, "=", 2)[0]}
	if chunk > 0 {
		tags = append(tags, "request-chunked")
	}
	if bodyLen > 0 {
		tags = append(tags, "request-body")
	}
	if bodyLen > 32*1024 {
		tags = append(tags, "request-body>32K")
	}
	if respLen > 32*1024 {
		tags = append(tags, "response-body>32K")
	}
	if f[11] == "1" {
		tags = append(tags, "response-chunked")
	}
	if f[12] != "" {
		tags = append(tags, "announced-trailers")
	}
	if f[13] != "" {
		tags = append(tags, "unannounced-trailers")
	}
	return out, tags
}

func c04WireGen(g *hx.Gen) {
	r := g.Rng
	emit := func(method, rawTarget, query string, bodyLen int, seed uint64, chunk int, ups string, status, respLen int, rseed uint64, respChunked bool, ann, unann []c04Entry) {
		u, err := url.ParseRequestURI(rawTarget)
		if err != nil {
			return
		}
		// which upstream block casket routes the path to (httpserver.Path.Matches: case-insensitive prefix)
		ups = "A"
		if strings.HasPrefix(strings.ToLower(u.Path), "/api") {
			ups = "B"
		}
		if strings.HasPrefix(strings.ToLower(u.Path), "/buf") {
			ups = "C"
		}
		rc := "0"
		if respChunked || len(ann) > 0 || len(unann) > 0 {
			rc = "1"
		}
		g.Case(hx.HS(method), hx.HS(u.Path), hx.HS(rawTarget), hx.HS(query), strconv.Itoa(bodyLen), strconv.FormatUint(seed, 10), strconv.Itoa(chunk),
			ups, strconv.Itoa(status), strconv.Itoa(respLen), strconv.FormatUint(rseed, 10), rc, c04EncEntries(ann), c04EncEntries(unann))
	}
	sizes := []int{0, 1, 4095, 32*1024 - 1, 32 * 1024, 32*1024 + 1, 64 * 1024, 64*1024 + 1}
	if g.Thorough() {
		sizes = append(sizes, 200*1024, 1<<20, 5<<20)
	}
	chunks := []int{0, 1000, 32 * 1024, 70000}
	// request bodies: every size x framing x method, both upstream blocks
	for _, n := range sizes {
		for _, ch := range chunks {
			for _, m := range []string{"POST", "PUT"} {
				emit(m, "/up", "a=1", n, uint64(n)+1, ch, "A", 200, 2, 1, false, nil, nil)
				emit(m, "/api/up", "", n, uint64(n)+2, ch, "B", 201, 0, 1, false, nil, nil)
				emit(m, "/buf/up", "", n, uint64(n)+3, ch, "C", 200, 1, 1, false, nil, nil)
			}
		}
		if n > 0 && n < 5000 {
			emit("POST", "/up", "", n, 5, 1, "A", 200, 2, 1, false, nil, nil)
		}
	}
	// response bodies: every size x framing x trailers
	t1 := []c04Entry{{"X-Checksum", []string{"abc"}}}
	t2 := []c04Entry{{"Grpc-Status", []string{"0"}}, {"Grpc-Message", []string{"fine", "really"}}}
	for _, n := range sizes {
		for _, rc := range []bool{false, true} {
			emit("GET", "/down", "", 0, 0, 0, "A", 200, n, uint64(n)+3, rc, nil, nil)
		}
		emit("GET", "/down", "", 0, 0, 0, "A", 200, n, uint64(n)+4, true, t1, nil)
		emit("GET", "/api/down", "", 0, 0, 0, "B", 200, n, uint64(n)+5, true, nil, t2)
		emit("GET", "/down", "", 0, 0, 0, "A", 200, n, uint64(n)+6, true, t1, t2)
	}
	// statuses, methods, paths
	for _, st := range []int{200, 201, 204, 301, 304, 400, 404, 418, 500, 503} {
		emit("GET", "/s", "", 0, 0, 0, "A", st, 10, 1, false, nil, nil)
	}
	for _, m := range []string{"GET", "HEAD", "DELETE", "OPTIONS", "PATCH", "PROPFIND"} {
		emit(m, "/m", "x=y", 0, 0, 0, "A", 200, 10, 1, false, nil, nil)
	}
	for _, p := range []string{"/", "/a%2Fb", "/a%20b", "/api", "/api/", "/api/x%2Fy", "/%e2%82%ac", "/a//b", "/a/./b", "/x;y=z", "/API/x"} {
		emit("GET", p, "q=%2F&r", 0, 0, 0, "A", 200, 1, 1, false, nil, nil)
	}
	N := 150
	if g.Thorough() {
		N = 3000
	}
	for i := 0; i < N; i++ {
		n := 0
		if r.Bool() {
			n = r.Intn(150000)
		}
		ch := 0
		if r.Bool() {
			ch = 1 + r.Intn(40000)
		}
		var ann, unann []c04Entry
		if r.Chance(1, 3) {
			ann = t1
		}
		if r.Chance(1, 3) {
			unann = t2
		}
		p := hx.Pick(r, []string{"/x", "/api/x", "/a%2Fb/c", "/api/y%20z", "/buf/x", "/buf/y%2Fz"})
		ups := "A"
		if strings.HasPrefix(p, "/api") {
			ups = "B"
		}
		if strings.HasPrefix(p, "/buf") {
			ups = "C"
		}
		emit(hx.Pick(r, []string{"POST", "PUT", "GET"}), p, hx.Pick(r, c04Queries), n, r.U64()%1000, ch, ups,
			hx.Pick(r, []int{200, 201, 404, 500}), r.Intn(150000), r.U64()%1000, r.Bool(), ann, unann)
	}
}

func init() {
	hx.Register(&hx.Stream{ID: "C04", Name: "c04.wire", Gen: c04WireGen, Eval: c04WireEval, Setup: c04WireSetup, Teardown: c04WireTeardown})
}
