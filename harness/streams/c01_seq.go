//go:build c01

package streams

import (
	"strconv"
	"strings"

	"github.com/tmpim/casket/caskethttp/httpserver"

	"verifharness/hx"
)

// c01.seq: SEVERAL lookups through ONE vhostTrie (the routing table of a listener lives as long as
// the server and answers every request), compared with the same lookups each on a freshly built
// trie: which site answers a request is a function of the sites and the request, not of the
// requests that came before (seeded regression C01-host-miss-cache-poisoned-by-path-miss: a
// per-host "unroutable" cache filled by a path miss).
// fields: keys (comma list of hex), queries (comma list of hex)
// out = seq=<a1;a2;...>|fresh=<a1;a2;...>   a = <index>:<prefix hex> | -

func c01SeqBuild(keys string) *httpserver.VerifVHostTrie {
	t := httpserver.VerifNewVHostTrie()
	if keys != "" {
		for _, k := range strings.Split(keys, ",") {
			t.Insert(hx.UnHS(k))
		}
	}
	return t
}

func c01SeqAns(t *httpserver.VerifVHostTrie, q string) string {
	i, p := t.Match(hx.UnHS(q))
	if i < 0 {
		if p != "" {
			return "nil-site-with-prefix"
		}
		return "-"
	}
	return strconv.Itoa(i) + ":" + hx.HS(p)
}

func c01SeqEval(f []string) (string, []string) {
	qs := strings.Split(f[1], ",")
	one := c01SeqBuild(f[0])
	var seq, fresh []string
	miss, hit := false, false
	for _, q := range qs {
		a := c01SeqAns(one, q)
		seq = append(seq, a)
		fresh = append(fresh, c01SeqAns(c01SeqBuild(f[0]), q))
		if a == "-" {
			miss = true
		} else {
			hit = true
		}
	}
	tags := []string{"queries=" + strconv.Itoa(len(qs))}
	if miss && hit {
		tags = append(tags, "misses-and-hits-on-one-trie")
	} else {
		tags = append(tags, "trivial-all-same-kind")
	}
	return "seq=" + strings.Join(seq, ";") + "|fresh=" + strings.Join(fresh, ";"), tags
}

func c01SeqGen(g *hx.Gen) {
	hs := func(xs []string) string {
		o := make([]string, len(xs))
		for i, x := range xs {
			o[i] = hx.HS(x)
		}
		return strings.Join(o, ",")
	}
	// by hand: a path miss on a host that has sites, then a request one of them must answer;
	// an unknown host, then a known one; wildcard and fallback branches; case and port spellings
	g.Case(hs([]string{"example.com/app"}), hs([]string{"example.com/favicon.ico", "example.com/app/x", "EXAMPLE.com/app", "example.com:8080/app/y"}))
	g.Case(hs([]string{"example.com/app", "*.example.com/x"}), hs([]string{"a.example.com/y", "a.example.com/x/1", "example.com/", "example.com/app"}))
	g.Case(hs([]string{"/only"}), hs([]string{"any.host/", "any.host/only/x", "other/only"}))
	g.Case(hs([]string{"0.0.0.0/asdf", "example.com"}), hs([]string{"nope/x", "nope/asdf", "example.com/q", "nope/x"}))
	g.Case(hs([]string{"example.com"}), hs([]string{"unknown.test/", "example.com/", "unknown.test/", "example.com/a"}))
	hosts := []string{"a.b", "A.b", "x.a.b", "c", "a.b:80", "", "*.b", "0.0.0.0"}
	paths := []string{"", "/", "/p", "/p/q", "/P", "/pq", "/r"}
	N := 1500
	if g.Thorough() {
		N = 40000
	}
	for it := 0; it < N; it++ {
		var ks, qs []string
		for n := 1 + g.Rng.Intn(4); n > 0; n-- {
			ks = append(ks, hx.Pick(g.Rng, hosts)+hx.Pick(g.Rng, paths[:5]))
		}
		for n := 2 + g.Rng.Intn(5); n > 0; n-- {
			qs = append(qs, hx.Pick(g.Rng, hosts[:6])+hx.Pick(g.Rng, paths))
		}
		g.Case(hs(ks), hs(qs))
	}
}

func init() {
	hx.Register(&hx.Stream{ID: "C01", Name: "c01.seq", Serial: true, Gen: c01SeqGen, Eval: c01SeqEval})
}
