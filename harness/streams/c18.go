//go:build c18

package streams

import (
	"bytes"
	stdgzip "compress/gzip"
	"errors"
	"fmt"
	"io"
	"net/http"
	"net/http/httptest"
	"os"
	"path/filepath"
	"runtime"
	"strconv"
	"strings"
	"sync"
	"time"

	"github.com/tmpim/casket"
	_ "github.com/tmpim/casket/caskethttp/gzip"
	"github.com/tmpim/casket/caskethttp/httpserver"
	"github.com/tmpim/casket/caskethttp/staticfiles"

	"verifharness/hx"
)

// C18 — compression never changes what the client decodes.
//
// Every case is executed TWICE against the real code: through the middleware the `gzip`
// directive builds from Casketfile text, and without it; the judge relates the two responses.
//
// c18.wrap    blocks  path  ae  innerhdr  body  plen  ops  ret      (scripted inner handler)
// c18.static  blocks  path  ae  siblings  content  plens            (real staticfiles.FileServer on a temp dir)
//   ret = <status>: the handler returns (status, nil); <status>e: it returns (status, non-nil error)
//
// Codecs: a gzip layer is real (compress/gzip); zstd and br layers of pre-encoded bodies and of
// sibling files are framed markers (casket never decodes them, it only relays the bytes).

var c18ZstdMagic = []byte{0x28, 0xb5, 0x2f, 0xfd, 'Z', 'S', '('}
var c18BrMagic = []byte{0xce, 0xb2, 0xcf, 0x81, 'B', 'R', '('}

// c18Encode turns a body term into physical bytes.
func c18Encode(term string) ([]byte, error) {
	switch {
	case strings.HasPrefix(term, "r"):
		return hx.UnH(term[1:]), nil
	case strings.HasSuffix(term, ")"):
		i := strings.Index(term, "(")
		if i < 0 {
			return nil, errors.New("bad term")
		}
		inner, err := c18Encode(term[i+1 : len(term)-1])
		if err != nil {
			return nil, err
		}
		switch term[:i] {
		case "gzip":
			var b bytes.Buffer
			zw := stdgzip.NewWriter(&b)
			zw.Write(inner)
			zw.Close()
			return b.Bytes(), nil
		case "zstd":
			return append(append(append([]byte(nil), c18ZstdMagic...), inner...), ')'), nil
		case "br":
			return append(append(append([]byte(nil), c18BrMagic...), inner...), ')'), nil
		}
	}
	return nil, errors.New("bad term " + term)
}

// c18Parse recognises the coding layers of bytes on the wire.
func c18Parse(b []byte, status int) string {
	if string(b) == fmt.Sprintf("%d %s\n", status, http.StatusText(status)) && status >= 400 {
		return "E" + strconv.Itoa(status)
	}
	if len(b) >= 2 && b[0] == 0x1f && b[1] == 0x8b {
		zr, err := stdgzip.NewReader(bytes.NewReader(b))
		if err != nil {
			return "X-bad-gzip-header-" + hx.H(b)
		}
		zr.Multistream(false)
		inner, err := io.ReadAll(zr)
		if err != nil {
			return "X-truncated-gzip-" + hx.H(b)
		}
		// nothing may follow the single member
		var hdrAndBody bytes.Buffer
		_ = hdrAndBody
		return "gzip(" + c18Parse(inner, 0) + ")"
	}
	if bytes.HasPrefix(b, c18ZstdMagic) && bytes.HasSuffix(b, []byte(")")) {
		return "zstd(" + c18Parse(b[len(c18ZstdMagic):len(b)-1], 0) + ")"
	}
	if bytes.HasPrefix(b, c18BrMagic) && bytes.HasSuffix(b, []byte(")")) {
		return "br(" + c18Parse(b[len(c18BrMagic):len(b)-1], 0) + ")"
	}
	return "r" + hx.H(b)
}

func c18HexList(s string) []string {
	if s == "" {
		return nil
	}
	var out []string
	for _, x := range strings.Split(s, ",") {
		out = append(out, hx.UnHS(x))
	}
	return out
}

// c18Middleware builds the gzip middleware list from the blocks field ("" = directive absent).
func c18Middleware(blocks string) ([]httpserver.Middleware, error) {
	if blocks == "" {
		return nil, nil
	}
	var t strings.Builder
	for _, b := range strings.Split(blocks, ";") {
		p := strings.Split(b, "|")
		if len(p) != 4 {
			return nil, errors.New("bad block")
		}
		t.WriteString("gzip {\n")
		if e := c18HexList(p[0]); len(e) > 0 {
			t.WriteString(" ext " + strings.Join(e, " ") + "\n")
		}
		if n := c18HexList(p[1]); len(n) > 0 {
			t.WriteString(" not " + strings.Join(n, " ") + "\n")
		}
		if p[2] != "0" {
			t.WriteString(" min_length " + p[2] + "\n")
		}
		if p[3] != "" {
			t.WriteString(" level " + p[3] + "\n")
		}
		t.WriteString("}\n")
	}
	c := casket.NewTestController("http", t.String())
	act, err := casket.DirectiveAction("http", "gzip")
	if err != nil {
		return nil, err
	}
	if err := act(c); err != nil {
		return nil, err
	}
	return httpserver.GetConfig(c).Middleware(), nil
}

func c18Observe(rec *httptest.ResponseRecorder) string {
	res := rec.Result()
	body := rec.Body.Bytes()
	ce := strings.Join(res.Header.Values("Content-Encoding"), ",")
	if ce == "" {
		ce = "-"
	} else {
		ce = hx.HS(ce)
	}
	cl := "-"
	if v := res.Header.Values("Content-Length"); len(v) > 0 {
		if len(v) == 1 && v[0] == strconv.Itoa(len(body)) {
			cl = "="
		} else {
			cl = "!"
		}
	}
	vary := "0"
	for _, v := range res.Header.Values("Vary") {
		if v == "Accept-Encoding" {
			vary = "1"
		}
	}
	etag := "-"
	if e := res.Header.Get("ETag"); e != "" {
		etag = "s"
		if strings.HasPrefix(e, "W/") {
			etag = "w"
		}
	}
	return fmt.Sprintf("%d %s %s %s %s %s", res.StatusCode, ce, cl, vary, etag, c18Parse(body, res.StatusCode))
}

// c18Rec is the connection-level writer of the in-process runs: a ResponseRecorder that, like
// net/http's *response, also implements io.ReaderFrom and io.StringWriter, so that fast paths of
// wrappers that forward to them are exercised (httptest.ResponseRecorder alone hides them).
type c18Rec struct{ *httptest.ResponseRecorder }

func (r c18Rec) ReadFrom(src io.Reader) (int64, error) {
	b, err := io.ReadAll(src)
	if len(b) == 0 {
		return 0, err // like net/http: nothing read, nothing written, no header committed
	}
	n, werr := r.ResponseRecorder.Write(b)
	if err == nil {
		err = werr
	}
	return int64(n), err
}

func (r c18Rec) WriteString(s string) (int, error) { return r.ResponseRecorder.WriteString(s) }

// c18Run serves one request through mids+inner the way Server.ServeHTTP does (fallback error writer).
func c18Run(mids []httpserver.Middleware, inner httpserver.Handler, path, ae string) string {
	h := inner
	for i := len(mids) - 1; i >= 0; i-- {
		h = mids[i](h)
	}
	r := httptest.NewRequest("GET", "http://c18.test/", nil)
	r.URL.Path = path
	if ae != "" {
		r.Header.Set("Accept-Encoding", ae)
	}
	rec := httptest.NewRecorder()
	status, _ := h.ServeHTTP(c18Rec{rec}, r)
	if status >= 400 {
		httpserver.DefaultErrorFunc(rec, r, status)
	}
	return c18Observe(rec)
}

// c18IsBodyOp: ops that output the next piece of the body: w Write, c io.Copy from a reader
// without WriterTo, s io.WriteString
func c18IsBodyOp(o string) bool { return o == "w" || o == "c" || o == "s" }

// c18Inner builds the scripted handler.
// c18Ret parses the ret field: "<status>" = the handler returns (status, nil); "<status>e" = it
// returns (status, non-nil error) -- e.g. status 0 with an error after the complete body, which is
// what fastcgi returns when the backend also wrote to stderr, or a proxy reporting a late error
// for the log.
func c18Ret(s string) (ret int, herr bool, ok bool) {
	if strings.HasSuffix(s, "e") {
		herr = true
		s = s[:len(s)-1]
	}
	n, err := strconv.Atoi(s)
	if err != nil || n < 0 {
		return 0, false, false
	}
	return n, herr, true
}

func c18RetField(ret int, herr bool) string {
	if herr {
		return strconv.Itoa(ret) + "e"
	}
	return strconv.Itoa(ret)
}

func c18Inner(hp []string, phys []byte, ops []string, ret int, herr bool) httpserver.Handler {
	nw := 0
	for _, o := range ops {
		if c18IsBodyOp(o) {
			nw++
		}
	}
	return httpserver.HandlerFunc(func(w http.ResponseWriter, r *http.Request) (int, error) {
		if ce := hx.UnHS(hp[0]); ce != "" {
			w.Header().Set("Content-Encoding", ce)
		}
		if hp[1] != "-" {
			w.Header().Set("Content-Length", hp[1])
		}
		if hp[2] == "1" {
			w.Header().Add("Vary", "Accept-Encoding")
		}
		switch hp[3] {
		case "s":
			w.Header().Set("ETag", `"c18tag"`)
		case "w":
			w.Header().Set("ETag", `W/"c18tag"`)
		}
		w.Header().Set("Content-Type", "text/plain; charset=utf-8")
		k := 0
		for _, o := range ops {
			switch {
			case c18IsBodyOp(o):
				chunk := phys[k*len(phys)/nw : (k+1)*len(phys)/nw]
				k++
				switch o {
				case "w":
					w.Write(chunk)
				case "c":
					if len(chunk) == 0 {
						// io.Copy of nothing calls nothing (not even a zero-length Write); keep the
						// op a body output like the model's
						w.Write(chunk)
						break
					}
					// the struct hides bytes.Reader's WriteTo, so io.Copy looks for ReaderFrom on w
					io.Copy(w, struct{ io.Reader }{bytes.NewReader(chunk)})
				case "s":
					io.WriteString(w, string(chunk))
				}
			case o == "f":
				w.(http.Flusher).Flush()
			case strings.HasPrefix(o, "h"):
				code, _ := strconv.Atoi(o[1:])
				w.WriteHeader(code)
			}
		}
		if herr {
			return ret, errors.New("inner failed (reported for the log)")
		}
		return ret, nil
	})
}

func c18WrapEval(f []string) (string, []string) {
	if len(f) != 8 {
		return "bad-case", nil
	}
	mids, err := c18Middleware(f[0])
	if err != nil {
		return "setup-error:" + err.Error(), nil
	}
	path, ae := hx.UnHS(f[1]), hx.UnHS(f[2])
	hp := strings.Split(f[3], "|")
	if len(hp) != 4 {
		return "bad-case", nil
	}
	phys, err := c18Encode(f[4])
	if err != nil {
		return "bad-case", nil
	}
	if strconv.Itoa(len(phys)) != f[5] {
		return "bad-case:plen", nil
	}
	var ops []string
	if f[6] != "" {
		ops = strings.Split(f[6], ",")
	}
	nw := 0
	for _, o := range ops {
		if c18IsBodyOp(o) {
			nw++
		}
	}
	ret, herr, ok := c18Ret(f[7])
	if !ok {
		return "bad-case", nil
	}
	mk := func() httpserver.Handler { return c18Inner(hp, phys, ops, ret, herr) }
	g := c18Run(mids, mk(), path, ae)
	p := c18Run(nil, mk(), path, ae)
	tags := []string{}
	gce := strings.Split(g, " ")[1]
	pce := strings.Split(p, " ")[1]
	switch {
	case gce != pce:
		tags = append(tags, "compressed")
	case pce != "-":
		tags = append(tags, "already-encoded-untouched")
	case ae == "":
		tags = append(tags, "trivial-no-accept-encoding")
	default:
		tags = append(tags, "not-compressed")
	}
	if nw > 1 {
		tags = append(tags, "multi-write")
	}
	if strings.Contains(f[6], "f") {
		tags = append(tags, "flush")
	}
	if strings.Contains(f[6], "c") || strings.Contains(f[6], "s") {
		tags = append(tags, "copy-or-writestring")
	}
	if herr {
		tags = append(tags, "handler-error")
		if nw > 0 && ret < 400 {
			tags = append(tags, "error-after-body")
		}
	}
	return g + "\t" + p, tags
}

// ---- c18.live: write patterns against a real net/http server connection ----
//
// c18.live  blocks  path  ae  innerhdr  body  plen  ops  ret     (same case format as c18.wrap)
//   out = <with gzip> TAB <without>; each: status ce term   (net/http adds its own Content-Length,
//   so the Content-Length state is left to c18.wrap)

func c18LiveRun(mids []httpserver.Middleware, inner httpserver.Handler, path, ae string) string {
	h := inner
	for i := len(mids) - 1; i >= 0; i-- {
		h = mids[i](h)
	}
	srv := httptest.NewServer(http.HandlerFunc(func(w http.ResponseWriter, r *http.Request) {
		status, _ := h.ServeHTTP(w, r)
		if status >= 400 {
			httpserver.DefaultErrorFunc(w, r, status)
		}
	}))
	defer srv.Close()
	req, err := http.NewRequest("GET", srv.URL+path, nil)
	if err != nil {
		return "0 - X-bad-request"
	}
	if ae != "" {
		req.Header.Set("Accept-Encoding", ae)
	}
	tr := &http.Transport{DisableCompression: true}
	defer tr.CloseIdleConnections()
	res, err := tr.RoundTrip(req)
	if err != nil {
		return "0 - X-roundtrip-error"
	}
	body, rerr := io.ReadAll(res.Body)
	res.Body.Close()
	ce := strings.Join(res.Header.Values("Content-Encoding"), ",")
	if ce == "" {
		ce = "-"
	} else {
		ce = hx.HS(ce)
	}
	if rerr != nil {
		return fmt.Sprintf("%d %s X-read-error-after-%d-bytes", res.StatusCode, ce, len(body))
	}
	return fmt.Sprintf("%d %s %s", res.StatusCode, ce, c18Parse(body, res.StatusCode))
}

func c18LiveEval(f []string) (string, []string) {
	if len(f) != 8 {
		return "bad-case", nil
	}
	mids, err := c18Middleware(f[0])
	if err != nil {
		return "setup-error:" + err.Error(), nil
	}
	path, ae := hx.UnHS(f[1]), hx.UnHS(f[2])
	hp := strings.Split(f[3], "|")
	if len(hp) != 4 {
		return "bad-case", nil
	}
	phys, err := c18Encode(f[4])
	if err != nil || strconv.Itoa(len(phys)) != f[5] {
		return "bad-case", nil
	}
	var ops []string
	if f[6] != "" {
		ops = strings.Split(f[6], ",")
	}
	ret, herr, ok := c18Ret(f[7])
	if !ok {
		return "bad-case", nil
	}
	g := c18LiveRun(mids, c18Inner(hp, phys, ops, ret, herr), path, ae)
	p := c18LiveRun(nil, c18Inner(hp, phys, ops, ret, herr), path, ae)
	tags := []string{"live"}
	if herr {
		tags = append(tags, "handler-error")
	}
	if strings.Split(g, " ")[1] != strings.Split(p, " ")[1] {
		tags = append(tags, "compressed")
	} else {
		tags = append(tags, "not-compressed")
	}
	return g + "\t" + p, tags
}

// ---- c18.bodiless: HEAD requests and the statuses without a body, over a real connection ----
//
// c18.bodiless  blocks  path  ae  innerhdr  body  plen  ops  ret  method
//   out = <with gzip> TAB <without> TAB <head>; each: status ce vary etag cl bodylen
//     cl: - absent / + present / * HEAD (not compared);  head: for HEAD requests whether Content-Encoding, Vary, ETag,
//     and Content-Type equal those of the same request sent as GET (same|differs:<names>), else -
//   net/http decides what goes on the wire (no body for HEAD/204/304, no Content-Length on 204/304): trusted.

func c18WireRun(mids []httpserver.Middleware, inner httpserver.Handler, method, path, ae string) (string, http.Header) {
	h := inner
	for i := len(mids) - 1; i >= 0; i-- {
		h = mids[i](h)
	}
	srv := httptest.NewServer(http.HandlerFunc(func(w http.ResponseWriter, r *http.Request) {
		status, _ := h.ServeHTTP(w, r)
		if status >= 400 {
			httpserver.DefaultErrorFunc(w, r, status)
		}
	}))
	defer srv.Close()
	req, err := http.NewRequest(method, srv.URL+path, nil)
	if err != nil {
		return "0 - 0 - - 0", nil
	}
	if ae != "" {
		req.Header.Set("Accept-Encoding", ae)
	}
	tr := &http.Transport{DisableCompression: true}
	defer tr.CloseIdleConnections()
	res, err := tr.RoundTrip(req)
	if err != nil {
		return "0 - 0 - - X-roundtrip-error", nil
	}
	body, rerr := io.ReadAll(res.Body)
	res.Body.Close()
	ce := strings.Join(res.Header.Values("Content-Encoding"), ",")
	if ce == "" {
		ce = "-"
	} else {
		ce = hx.HS(ce)
	}
	vary := "0"
	for _, v := range res.Header.Values("Vary") {
		if v == "Accept-Encoding" {
			vary = "1"
		}
	}
	etag := "-"
	if e := res.Header.Get("ETag"); e != "" {
		etag = "s"
		if strings.HasPrefix(e, "W/") {
			etag = "w"
		}
	}
	cl := "-"
	if len(res.Header.Values("Content-Length")) > 0 {
		cl = "+"
	}
	if method == "HEAD" {
		cl = "*" // net/http computes Content-Length for HEAD from what the handler wrote: not compared
	}
	bl := strconv.Itoa(len(body))
	if rerr != nil {
		bl = "X-read-error"
	}
	return fmt.Sprintf("%d %s %s %s %s %s", res.StatusCode, ce, vary, etag, cl, bl), res.Header
}

func c18BodilessEval(f []string) (string, []string) {
	if len(f) != 9 {
		return "bad-case", nil
	}
	mids, err := c18Middleware(f[0])
	if err != nil {
		return "setup-error:" + err.Error(), nil
	}
	path, ae := hx.UnHS(f[1]), hx.UnHS(f[2])
	hp := strings.Split(f[3], "|")
	if len(hp) != 4 {
		return "bad-case", nil
	}
	phys, err := c18Encode(f[4])
	if err != nil || strconv.Itoa(len(phys)) != f[5] {
		return "bad-case", nil
	}
	var ops []string
	if f[6] != "" {
		ops = strings.Split(f[6], ",")
	}
	ret, herr, ok := c18Ret(f[7])
	if !ok {
		return "bad-case", nil
	}
	method := f[8]
	g, gh := c18WireRun(mids, c18Inner(hp, phys, ops, ret, herr), method, path, ae)
	p, _ := c18WireRun(nil, c18Inner(hp, phys, ops, ret, herr), method, path, ae)
	head := "-"
	if method == "HEAD" {
		_, gg := c18WireRun(mids, c18Inner(hp, phys, ops, ret, herr), "GET", path, ae)
		var diff []string
		for _, k := range []string{"Content-Encoding", "Vary", "Etag", "Content-Type"} { // Content-Length: net/http computes it differently for HEAD
			if strings.Join(gh.Values(k), ",") != strings.Join(gg.Values(k), ",") {
				diff = append(diff, k)
			}
		}
		head = "same"
		if len(diff) > 0 {
			head = "differs:" + strings.Join(diff, "+")
		}
	}
	return g + "\t" + p + "\t" + head, []string{method, "status=" + strings.Split(p, " ")[0]}
}

func c18BodilessGen(g *hx.Gen) {
	for _, method := range []string{"HEAD", "GET"} {
		for _, ops := range []string{"h200,w", "w", "h204", "h204,w", "h304", "h304,w", "h200", "c", "h200,w,f", "f,w", "h404,w", ""} {
			if method == "GET" && !strings.Contains(ops, "204") && !strings.Contains(ops, "304") {
				continue
			}
			for _, ae := range []string{"gzip", "", "gzip;q=0"} {
				for _, bl := range []string{c18Blocks[0], c18Blocks[4], c18Blocks[2]} {
					for _, ce := range c18CEs[:3] {
						for _, cl := range []bool{false, true} {
							for _, etag := range []string{"s", "-"} {
								term, plen := c18Body(ce.wrap, 40)
								cls := "-"
								if cl {
									cls = strconv.Itoa(plen)
								}
								g.Case(bl, hx.HS("/a.txt"), hx.HS(ae), hx.HS(ce.hdr)+"|"+cls+"|0|"+etag, term, strconv.Itoa(plen), ops, "0", method)
								if etag == "s" && ae == "gzip" && ops != "" {
									g.Case(bl, hx.HS("/a.txt"), hx.HS(ae), hx.HS(ce.hdr)+"|"+cls+"|0|"+etag, term, strconv.Itoa(plen), ops, "0e", method)
								}
							}
						}
					}
				}
			}
		}
	}
}

// ---- c18.pool: the pooled gzip writers under overlapping requests ----
//
// c18.pool  level  first  k
//   One site (gzip at `level`) behind a real net/http server.  Step 1: one request whose handler
//   behaves as `first` (its answer is not judged: some of these handlers break the handler
//   contract): ok (writes a page) | hdr-err (WriteHeader(200) through the compressing writer, then
//   returns 500) | write-err (writes, then returns 500) | err (returns 404 untouched) |
//   late-err (writes its page, then returns 0 and a non-nil error) | panic-after-write.
//   Step 2: k overlapping requests; their handlers write a first piece, meet at a barrier (so every
//   one holds its gzip writer at the same time), then write the rest.  out = k results: ok, or
//   what is wrong with that response.  GOMAXPROCS is 1 while the case runs, so that sync.Pool
//   hands objects out in the order they were put in (deterministic).

type c18Barrier struct {
	mu    sync.Mutex
	n     int
	count int
	ch    chan struct{}
}

func (b *c18Barrier) wait() bool {
	b.mu.Lock()
	b.count++
	if b.count == b.n {
		close(b.ch)
	}
	b.mu.Unlock()
	select {
	case <-b.ch:
		return true
	case <-time.After(5 * time.Second):
		return false
	}
}

func c18PoolEval(f []string) (string, []string) {
	if len(f) != 3 {
		return "bad-case", nil
	}
	k, _ := strconv.Atoi(f[2])
	if k < 1 || k > 8 {
		return "bad-case", nil
	}
	mids, err := c18Middleware(hx.HS("*") + "||0|" + f[0])
	if err != nil {
		return "setup-error:" + err.Error(), nil
	}
	old := runtime.GOMAXPROCS(1)
	defer runtime.GOMAXPROCS(old)
	bar := &c18Barrier{n: k, ch: make(chan struct{})}
	part := func(id, which string) string {
		return fmt.Sprintf("request-%s-part-%s-%s|", id, which, strings.Repeat(id, 40))
	}
	inner := httpserver.HandlerFunc(func(w http.ResponseWriter, r *http.Request) (int, error) {
		w.Header().Set("Content-Type", "text/plain; charset=utf-8")
		if id := r.Header.Get("X-C18-Conc"); id != "" {
			io.WriteString(w, part(id, "one"))
			if !bar.wait() {
				return 0, nil
			}
			io.WriteString(w, part(id, "two"))
			return 0, nil
		}
		switch f[1] {
		case "ok":
			io.WriteString(w, "a page")
			return 0, nil
		case "hdr-err":
			w.WriteHeader(200)
			return 500, errors.New("failed after the header")
		case "write-err":
			io.WriteString(w, "half a page")
			return 500, errors.New("failed after writing")
		case "err":
			return 404, nil
		case "late-err":
			io.WriteString(w, "a whole page")
			return 0, errors.New("reported after the complete body")
		case "panic-after-write":
			io.WriteString(w, "half a page")
			panic("c18.pool handler panic")
		}
		return 0, nil
	})
	h := httpserver.Handler(inner)
	for i := len(mids) - 1; i >= 0; i-- {
		h = mids[i](h)
	}
	srv := httptest.NewServer(http.HandlerFunc(func(w http.ResponseWriter, r *http.Request) {
		defer func() {
			if rec := recover(); rec != nil { // what Server.ServeHTTP does
				httpserver.DefaultErrorFunc(w, r, 500)
			}
		}()
		status, _ := h.ServeHTTP(w, r)
		if status >= 400 {
			httpserver.DefaultErrorFunc(w, r, status)
		}
	}))
	defer srv.Close()
	get := func(id string) string {
		req, _ := http.NewRequest("GET", srv.URL+"/p.txt", nil)
		req.Header.Set("Accept-Encoding", "gzip")
		if id != "" {
			req.Header.Set("X-C18-Conc", id)
		}
		tr := &http.Transport{DisableCompression: true}
		defer tr.CloseIdleConnections()
		res, err := tr.RoundTrip(req)
		if err != nil {
			return "bad:roundtrip"
		}
		body, rerr := io.ReadAll(res.Body)
		res.Body.Close()
		if id == "" {
			return "ignored"
		}
		if rerr != nil {
			return "bad:undecodable:read-error"
		}
		if res.Header.Get("Content-Encoding") != "gzip" {
			return "bad:not-compressed"
		}
		zr, err := stdgzip.NewReader(bytes.NewReader(body))
		if err != nil {
			return "bad:undecodable:no-gzip-header"
		}
		dec, err := io.ReadAll(zr)
		if err != nil {
			return "bad:undecodable:broken-stream"
		}
		if string(dec) != part(id, "one")+part(id, "two") {
			return "bad:decoded-differs"
		}
		return "ok"
	}
	get("") // step 1
	res := make([]string, k)
	var wg sync.WaitGroup
	for i := 0; i < k; i++ {
		wg.Add(1)
		go func(i int) {
			defer wg.Done()
			res[i] = get(string(rune('a' + i)))
		}(i)
	}
	wg.Wait()
	return strings.Join(res, ","), []string{"first=" + f[1], "k=" + f[2]}
}

func c18PoolGen(g *hx.Gen) {
	for _, level := range []string{"", "1", "9"} {
		for _, first := range []string{"ok", "hdr-err", "write-err", "err", "late-err", "panic-after-write"} {
			for _, k := range []string{"2", "3", "4"} {
				if !g.Thorough() && level == "1" && k != "2" {
					continue
				}
				g.Case(level, first, k)
			}
		}
	}
}

var c18LiveOps = []string{"w", "c", "s", "c,w", "c,f", "c,f,c", "w,c", "h200,c", "h200,c,w", "f,c", "c,c,c", "s,w", "s,f,s", "w,f,w", "h404,c,f", "c,h500,w", "f,w", "h201,w,s,c",
	"h103,w", "h103,h200,w", "h103,h404,w", "h103,c,w", "h103,h204"} // 103 Early Hints: informational, the response header proper follows

func c18LiveGen(g *hx.Gen) {
	// an informational header, then an error status without a response of the handler's own
	for _, ops := range []string{"h103", "h102", "h103,h103"} {
		for _, ae := range []string{"gzip", ""} {
			for _, ret := range []int{404, 500, 0} {
				term, plen := c18Body("", 40)
				g.Case(c18Blocks[0], hx.HS("/a.txt"), hx.HS(ae), "|-|0|s", term, strconv.Itoa(plen), ops, strconv.Itoa(ret))
				g.Case(c18Blocks[0], hx.HS("/a.txt"), hx.HS(ae), "|-|0|s", term, strconv.Itoa(plen), ops, c18RetField(ret, true))
			}
		}
	}
	// the handler writes its response and then returns (0 | 200, non-nil error): over a real
	// connection the client must still receive a complete response that decodes to the same body
	for _, ops := range c18LiveOps {
		for _, ae := range []string{"gzip", ""} {
			for bi, bl := range []string{c18Blocks[0], c18Blocks[4], c18Blocks[2]} {
				for _, n := range []int{40, 1240, 5000} {
					if !g.Thorough() && bi != 0 && n != 1240 {
						continue
					}
					for _, cl := range []bool{false, true} {
						c18WrapCaseE(g, bl, "/a.txt", ae, c18CEs[0], cl, "0", "s", n, ops, 0, true)
					}
				}
			}
		}
		c18WrapCaseE(g, c18Blocks[0], "/a.txt", "gzip", c18CEs[2], true, "0", "s", 40, ops, 0, true)
		c18WrapCaseE(g, c18Blocks[0], "/a.txt", "gzip", c18CEs[0], false, "0", "s", 40, ops, 200, true)
	}
	for _, ops := range c18LiveOps {
		for _, ae := range []string{"gzip", "", "gzip;q=0"} {
			for _, bl := range []string{c18Blocks[0], c18Blocks[4], c18Blocks[2]} {
				for ci, ce := range c18CEs[:3] {
					for _, n := range []int{3, 40, 5000} {
						if !g.Thorough() && ((ci != 0 && n != 40) || (ae == "gzip;q=0" && n != 40)) {
							continue
						}
						for _, cl := range []bool{false, true} {
							c18WrapCase(g, bl, "/a.txt", ae, ce, cl, "0", "s", n, ops, 0)
						}
					}
				}
			}
		}
	}
}

// ---- static files ----

var c18Root string

var c18Files = map[string]string{
	"f.txt": "The quick brown fox jumps over the lazy dog. The quick brown fox jumps over the lazy dog.\n",
	"f.bin": "binary-ish payload 0123456789",
	"e.txt": "",
}

var c18Sib = []struct{ bit int; letter, coding, ext string }{{1, "z", "zstd", ".zst"}, {2, "b", "br", ".br"}, {4, "g", "gzip", ".gz"}}

func c18SibBytes(name, coding string) []byte {
	b, _ := c18Encode(coding + "(r" + hx.HS(c18Files[name]) + ")")
	return b
}

func c18StaticSetup() error {
	dir, err := os.MkdirTemp("", "verif-c18-")
	if err != nil {
		return err
	}
	c18Root = dir
	for mask := 0; mask < 8; mask++ {
		d := filepath.Join(dir, fmt.Sprintf("m%d", mask))
		if err := os.Mkdir(d, 0o755); err != nil {
			return err
		}
		for name, content := range c18Files {
			if err := os.WriteFile(filepath.Join(d, name), []byte(content), 0o644); err != nil {
				return err
			}
			for _, s := range c18Sib {
				if mask&s.bit != 0 {
					if err := os.WriteFile(filepath.Join(d, name+s.ext), c18SibBytes(name, s.coding), 0o644); err != nil {
						return err
					}
				}
			}
		}
	}
	return nil
}

func c18StaticTeardown() {
	if c18Root != "" {
		os.RemoveAll(c18Root)
		c18Root = ""
	}
}

func c18StaticFields(mask int, name string) (sib, content, plens string) {
	var ls []string
	for _, s := range c18Sib {
		if mask&s.bit != 0 {
			sib += s.letter
			ls = append(ls, strconv.Itoa(len(c18SibBytes(name, s.coding))))
		} else {
			ls = append(ls, "0")
		}
	}
	return sib, hx.HS(c18Files[name]), strings.Join(ls, ",")
}

func c18StaticEval(f []string) (string, []string) {
	if len(f) != 6 {
		return "bad-case", nil
	}
	mids, err := c18Middleware(f[0])
	if err != nil {
		return "setup-error:" + err.Error(), nil
	}
	path, ae := hx.UnHS(f[1]), hx.UnHS(f[2])
	// the case must describe the file it names
	var mask int
	var name string
	if _, err := fmt.Sscanf(path, "/m%d/%s", &mask, &name); err != nil || mask < 0 || mask > 7 {
		return "bad-case", nil
	}
	if _, ok := c18Files[name]; !ok {
		return "bad-case", nil
	}
	sib, content, plens := c18StaticFields(mask, name)
	if sib != f[3] || content != f[4] || plens != f[5] {
		return "bad-case:fields do not describe the file", nil
	}
	fs := staticfiles.FileServer{Root: http.Dir(c18Root)}
	g := c18Run(mids, fs, path, ae)
	p := c18Run(nil, fs, path, ae)
	tags := []string{"siblings=" + f[3]}
	gce := strings.Split(g, " ")[1]
	pce := strings.Split(p, " ")[1]
	switch {
	case pce != "-" && gce == pce:
		tags = append(tags, "sibling-served-untouched")
	case pce != "-":
		tags = append(tags, "sibling-reencoded")
	case gce != pce:
		tags = append(tags, "compressed-on-the-fly")
	default:
		tags = append(tags, "identity")
	}
	return g + "\t" + p, tags
}

// ---- generators ----

var c18Blocks = []string{
	"||0|",                        // defaults
	hx.HS(".txt") + "||0|1",       // ext .txt, level 1
	hx.HS("*") + "||0|9",          // every extension
	"|" + hx.HS("/no") + "|0|",    // not /no
	"||5|6",                       // min_length 5
	hx.HS(".css") + "||0|;" + hx.HS(".txt") + "||8|0", // two blocks; the second with min_length and an invalid level
	"||0|-3",
}

var c18Paths = []string{"/a.txt", "/a", "/no/a.txt", "/a.bin", "/dir.d/a", "/a.TXT", "/NO/x.txt", "/a.css"}

var c18AEs = []string{"", "gzip", "gzip, deflate, br", "br", "identity", "gzip;q=0", "gzip;q=0.5", "deflate, gzip;q=1.0, *;q=0.5",
	"x-gzip", "GZIP", "*", "gzip; q=0.0", "zstd, gzip", "gzip;q=0.001", "gzip;q=0.000", "br;q=0, gzip", "gzip;Q=0", "gzip ; q=0 , br"}

type c18CE struct{ hdr, wrap string }

var c18CEs = []c18CE{{"", ""}, {"identity", ""}, {"gzip", "gzip"}, {"zstd", "zstd"}, {"br", "br"}, {"deflate", ""}, {"compress", ""},
	{"x-foo", ""}, {"GZIP", "gzip"}, {"", "gzip"}, {"gzip, br", ""}}

var c18Ops = []string{"", "h200", "w", "h200,w", "h404,w", "w,w,w", "f,w", "w,f,w", "h200,f,w,f", "f", "h204", "h304", "h200,w,f", "h201,w,w", "f,f,w,w", "h200,h404,w", "w,h500,w", "f,h206,w", "h200,w,h404,w,f",
	"c", "c,w", "c,f", "c,f,c", "h200,c", "w,c", "s", "s,w", "s,f", "c,s,w", "f,c", "c,h500,w"}

func c18Body(wrap string, n int) (term string, plen int) {
	b := make([]byte, n)
	for i := range b {
		b[i] = byte('a' + i%26)
	}
	term = "r" + hx.H(b)
	if wrap != "" {
		term = wrap + "(" + term + ")"
	}
	phys, _ := c18Encode(term)
	return term, len(phys)
}

func c18WrapCase(g *hx.Gen, blocks, path, ae string, ce c18CE, cl bool, vary, etag string, n int, ops string, ret int) {
	c18WrapCaseE(g, blocks, path, ae, ce, cl, vary, etag, n, ops, ret, false)
}

// c18WrapCaseE: herr = the handler returns a non-nil error next to `ret`
func c18WrapCaseE(g *hx.Gen, blocks, path, ae string, ce c18CE, cl bool, vary, etag string, n int, ops string, ret int, herr bool) {
	term, plen := c18Body(ce.wrap, n)
	cls := "-"
	if cl {
		cls = strconv.Itoa(plen)
	}
	hasOp := ops != ""
	if ret >= 400 && hasOp {
		return // a handler that wrote must not also return an error status (C12's contract)
	}
	g.Case(blocks, hx.HS(path), hx.HS(ae), hx.HS(ce.hdr)+"|"+cls+"|"+vary+"|"+etag, term, strconv.Itoa(plen), ops, c18RetField(ret, herr))
}

func c18WrapGen(g *hx.Gen) {
	// request side x response coding: every block x path x Accept-Encoding x inner Content-Encoding
	for _, bl := range c18Blocks {
		for _, p := range c18Paths {
			for _, ae := range c18AEs {
				for ci, ce := range c18CEs {
					if !g.Thorough() && ci > 4 && (len(p)+len(ae))%3 != 0 {
						continue
					}
					c18WrapCase(g, bl, p, ae, ce, true, "0", "s", 40, "h200,w", 0)
				}
			}
		}
	}
	// write patterns x header state, compressible and pre-encoded
	for _, ops := range c18Ops {
		for _, ae := range []string{"gzip", "", "gzip;q=0"} {
			for _, ce := range c18CEs[:4] {
				for _, cl := range []bool{false, true} {
					for _, vary := range []string{"0", "1"} {
						for _, etag := range []string{"-", "s", "w"} {
							for _, n := range []int{0, 3, 40} {
								for _, bl := range []string{c18Blocks[0], c18Blocks[4]} {
									rets := []int{0}
									if ops == "" {
										rets = []int{0, 200, 404, 500}
									} else if strings.ContainsAny(ops, "wcs") {
										rets = []int{0, 200}
									}
									for _, ret := range rets {
										if cl && ret >= 400 {
											continue
										}
										c18WrapCase(g, bl, "/a.txt", ae, ce, cl, vary, etag, n, ops, ret)
									}
								}
							}
						}
					}
				}
			}
		}
	}
	// the handler's (status, error) return: a handler that has written its body (or part of the
	// calls) and then returns a non-nil error with a status below 400 -- fastcgi after stderr output
	// returns (0, err) once the whole body is copied; others report a late error for the log.  The
	// client must get what it gets without the middleware.  Also: error statuses with and without an
	// error value for handlers that wrote nothing.
	for _, ops := range c18Ops {
		for _, ae := range []string{"gzip", "", "x-gzip;q=0.5, br"} {
			for _, ce := range c18CEs[:3] {
				for _, cl := range []bool{false, true} {
					for _, n := range []int{0, 3, 40, 1240, 5000} {
						for bi, bl := range []string{c18Blocks[0], c18Blocks[4], c18Blocks[2], c18Blocks[5]} {
							if !g.Thorough() && ((n == 5000 && (bi != 0 || ae != "gzip")) || (bi == 3 && n != 40)) {
								continue
							}
							type re struct {
								ret  int
								herr bool
							}
							rets := []re{{0, true}, {200, true}}
							if ops == "" {
								rets = []re{{0, true}, {200, true}, {302, true}, {404, true}, {500, true}, {503, false}}
							} else if n != 40 {
								rets = []re{{0, true}}
							}
							for _, r := range rets {
								if cl && r.ret >= 400 {
									continue
								}
								c18WrapCaseE(g, bl, "/a.txt", ae, ce, cl, "0", "s", n, ops, r.ret, r.herr)
							}
						}
					}
				}
			}
		}
	}
	N := 3000
	if g.Thorough() {
		N = 50000
	}
	for it := 0; it < N; it++ {
		ops := hx.Pick(g.Rng, c18Ops)
		if g.Rng.Chance(1, 3) {
			var o []string
			if g.Rng.Chance(1, 4) {
				o = append(o, "f")
			}
			if g.Rng.Chance(1, 2) {
				o = append(o, "h"+hx.Pick(g.Rng, []string{"200", "201", "206", "404", "500", "301"}))
			}
			for k := g.Rng.Intn(5); k > 0; k-- {
				o = append(o, hx.Pick(g.Rng, []string{"w", "w", "f", "c", "s"}))
			}
			ops = strings.Join(o, ",")
		}
		ret := 0
		if ops == "" {
			ret = hx.Pick(g.Rng, []int{0, 200, 403, 404, 500, 502})
		}
		n := hx.Pick(g.Rng, []int{0, 1, 4, 5, 7, 8, 9, 40, 600, 5000})
		bl := hx.Pick(g.Rng, c18Blocks)
		if g.Rng.Chance(1, 4) {
			bl = fmt.Sprintf("%s|%s|%d|%d", hx.HS(hx.Pick(g.Rng, []string{".txt", "*", ".a"})), "", g.Rng.Intn(12), g.Rng.Intn(14)-2)
		}
		herr := g.Rng.Chance(1, 3)
		c18WrapCaseE(g, bl, hx.Pick(g.Rng, c18Paths), hx.Pick(g.Rng, c18AEs), hx.Pick(g.Rng, c18CEs), g.Rng.Bool() && ret < 400,
			strconv.Itoa(g.Rng.Intn(2)), hx.Pick(g.Rng, []string{"-", "s", "w"}), n, ops, ret, herr)
	}
}

var c18StaticAEs = []string{"", "gzip", "br", "zstd", "zstd, gzip", "gzip, zstd", "br, gzip", "gzip,br,zstd", " zstd ,gzip", "zstd;q=1, gzip",
	"gzip;q=0, zstd", "identity", "*", "deflate", "gzip;q=0", "ZSTD, gzip", "br,gzip;q=0",
	// other spellings of a refusal, and parameters on offered codings
	"gzip;q=0.0", "gzip; q=0", "gzip;Q=0", "br;q=0.000, gzip;q=0.", "zstd;q=0;x=1, br;q=0.8", "gzip ;q=0.00 , zstd;q=0.5"}

var c18StaticBlocks = []string{"", "||0|", hx.HS("*") + "||0|", "||10|", "|" + hx.HS("/m3") + "|0|", "||200|"}

func c18StaticGen(g *hx.Gen) {
	// every subset of siblings x file x Accept-Encoding x gzip configuration
	for mask := 0; mask < 8; mask++ {
		for _, name := range []string{"f.txt", "f.bin", "e.txt"} {
			for _, ae := range c18StaticAEs {
				for _, bl := range c18StaticBlocks {
					sib, content, plens := c18StaticFields(mask, name)
					g.Case(bl, hx.HS(fmt.Sprintf("/m%d/%s", mask, name)), hx.HS(ae), sib, content, plens)
				}
			}
		}
	}
}

// ---- c18.range: Range requests on files with precompressed siblings ----
//
// c18.range  blocks  path  ae  siblings  content  plens  range
//   out = <with gzip> TAB <without>; each: status ce cl <lo>-<hi>/<size> <slice-ok|slice-bad>
//   slice-ok: the body (after undoing an on-the-fly gzip layer) is exactly bytes lo..hi of the
//   representation the response names (the sibling file for its Content-Encoding, else the file).

func c18RangeRun(mids []httpserver.Middleware, path, ae, rng, name string, mask int) string {
	h := httpserver.Handler(staticfiles.FileServer{Root: http.Dir(c18Root)})
	for i := len(mids) - 1; i >= 0; i-- {
		h = mids[i](h)
	}
	r := httptest.NewRequest("GET", "http://c18.test/", nil)
	r.URL.Path = path
	if ae != "" {
		r.Header.Set("Accept-Encoding", ae)
	}
	r.Header.Set("Range", "bytes="+rng)
	rec := httptest.NewRecorder()
	status, _ := h.ServeHTTP(c18Rec{rec}, r)
	if status >= 400 {
		httpserver.DefaultErrorFunc(rec, r, status)
	}
	res := rec.Result()
	body := rec.Body.Bytes()
	ce := res.Header.Get("Content-Encoding")
	cl := "-"
	if v := res.Header.Values("Content-Length"); len(v) > 0 {
		if len(v) == 1 && v[0] == strconv.Itoa(len(body)) {
			cl = "="
		} else {
			cl = "!"
		}
	}
	cr := strings.TrimPrefix(res.Header.Get("Content-Range"), "bytes ")
	if cr == "" {
		cr = "-"
	}
	// which representation does the range refer to? a sibling if the file server picked one
	rep := []byte(c18Files[name])
	repCE := ""
	for _, sb := range c18Sib {
		if mask&sb.bit != 0 && ce == sb.coding {
			rep = c18SibBytes(name, sb.coding)
			repCE = sb.coding
		}
	}
	got := body
	if ce == "gzip" && repCE == "" {
		// compressed on the fly: undo that layer
		zr, err := stdgzip.NewReader(bytes.NewReader(body))
		if err == nil {
			got, _ = io.ReadAll(zr)
		}
	}
	slice := "slice-bad"
	var lo, hi, size int
	if n, _ := fmt.Sscanf(cr, "%d-%d/%d", &lo, &hi, &size); n == 3 && size == len(rep) && lo <= hi && hi < len(rep) && bytes.Equal(got, rep[lo:hi+1]) {
		slice = "slice-ok"
	}
	if ce == "" {
		ce = "-"
	} else {
		ce = hx.HS(ce)
	}
	return fmt.Sprintf("%d %s %s %s %s", res.StatusCode, ce, cl, cr, slice)
}

func c18RangeEval(f []string) (string, []string) {
	if len(f) != 7 {
		return "bad-case", nil
	}
	mids, err := c18Middleware(f[0])
	if err != nil {
		return "setup-error:" + err.Error(), nil
	}
	path, ae := hx.UnHS(f[1]), hx.UnHS(f[2])
	var mask int
	var name string
	if _, err := fmt.Sscanf(path, "/m%d/%s", &mask, &name); err != nil || mask < 0 || mask > 7 {
		return "bad-case", nil
	}
	sib, content, plens := c18StaticFields(mask, name)
	if sib != f[3] || content != f[4] || plens != f[5] {
		return "bad-case:fields do not describe the file", nil
	}
	g := c18RangeRun(mids, path, ae, f[6], name, mask)
	p := c18RangeRun(nil, path, ae, f[6], name, mask)
	tags := []string{"range"}
	if strings.Split(p, " ")[1] != "-" {
		tags = append(tags, "sibling")
	} else {
		tags = append(tags, "plain-file")
	}
	return g + "\t" + p, tags
}

func c18RangeGen(g *hx.Gen) {
	for mask := 0; mask < 8; mask++ {
		for _, name := range []string{"f.txt", "f.bin"} {
			for _, ae := range []string{"", "gzip", "zstd, gzip", "br", "gzip;q=0, zstd"} {
				for _, bl := range []string{"", "||0|", hx.HS("*") + "||0|"} {
					for _, rng := range []string{"0-4", "5-", "-3", "0-0"} {
						sib, content, plens := c18StaticFields(mask, name)
						g.Case(bl, hx.HS(fmt.Sprintf("/m%d/%s", mask, name)), hx.HS(ae), sib, content, plens, rng)
					}
				}
			}
		}
	}
}

func init() {
	hx.Register(&hx.Stream{ID: "C18", Name: "c18.range", Gen: c18RangeGen, Eval: c18RangeEval, Setup: c18StaticSetup, Teardown: c18StaticTeardown})
	hx.Register(&hx.Stream{ID: "C18", Name: "c18.pool", Gen: c18PoolGen, Eval: c18PoolEval, Serial: true})
	hx.Register(&hx.Stream{ID: "C18", Name: "c18.bodiless", Gen: c18BodilessGen, Eval: c18BodilessEval})
	hx.Register(&hx.Stream{ID: "C18", Name: "c18.live", Gen: c18LiveGen, Eval: c18LiveEval})
	hx.Register(&hx.Stream{ID: "C18", Name: "c18.wrap", Gen: c18WrapGen, Eval: c18WrapEval})
	hx.Register(&hx.Stream{ID: "C18", Name: "c18.static", Gen: c18StaticGen, Eval: c18StaticEval, Setup: c18StaticSetup, Teardown: c18StaticTeardown})
}
