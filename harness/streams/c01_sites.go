//go:build c01 || c06

package streams

import (
	"net"
	"strings"

	"verifharness/hx"
)

// Site lists as case fields, shared by the C01 streams and c06.snihost:
// comma list of <keyhex>:<fallback 0|1>:<addrhosthex> in declaration order.

type c01Site struct {
	key      string
	fallback bool
	addrHost string
}

func c01ParseSites(s string) []c01Site {
	if s == "" {
		return nil
	}
	var out []c01Site
	for _, e := range strings.Split(s, ",") {
		p := strings.Split(e, ":")
		out = append(out, c01Site{hx.UnHS(p[0]), p[1] == "1", hx.UnHS(p[2])})
	}
	return out
}

func c01EncSites(ss []c01Site) string {
	parts := make([]string, len(ss))
	for i, s := range ss {
		fb := "0"
		if s.fallback {
			fb = "1"
		}
		parts[i] = hx.HS(s.key) + ":" + fb + ":" + hx.HS(s.addrHost)
	}
	return strings.Join(parts, ",")
}

func c01AddrHost(key string) string {
	h := strings.ToLower(strings.SplitN(key, "/", 2)[0])
	if hn, _, err := net.SplitHostPort(h); err == nil {
		return hn
	}
	return strings.TrimSuffix(strings.TrimPrefix(h, "["), "]")
}
