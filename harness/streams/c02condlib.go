//go:build c02 || c03

package streams

// c02.cond: conditional and range requests on files, index pages and precompressed siblings.
// A response identifies files through ETag, Last-Modified, Content-Length, Content-Range and its
// (partial) body; the fixture makes size and mtime of every file unique, so each of them names
// one inode.  Modelled: If-None-Match, If-Modified-Since, single byte ranges (Model/Cond.lean).
// Explored only (x=…): If-Match, If-Unmodified-Since, If-Range, multi-range — the model predicts
// which inodes the headers identify, not the status.

import (
	"fmt"
	"mime"
	"mime/multipart"
	"net/http"
	"io"
	"bytes"
	"compress/gzip"
	"os"
	"path/filepath"
	"strconv"
	"strings"
	"time"

)

type fsIdent struct {
	etag   map[int]string
	byEtag map[string]int
	bySize map[int64]int
	byTime map[int64]int
	path   map[int]string
}

func (s *fsSite) ident() *fsIdent {
	fsMu.Lock()
	defer fsMu.Unlock()
	if s.id != nil {
		return s.id
	}
	id := &fsIdent{map[int]string{}, map[string]int{}, map[int64]int{}, map[int64]int{}, map[int]string{}}
	for _, e := range s.fx.entries {
		if e.isDir {
			continue
		}
		full := filepath.Join(s.T, filepath.FromSlash(e.path))
		st, err := os.Stat(full)
		if err != nil {
			continue
		}
		et := `"` + strconv.FormatInt(st.ModTime().Unix(), 36) + strconv.FormatInt(st.Size(), 36) + `"`
		id.etag[e.ino] = et
		id.byEtag[et] = e.ino
		id.bySize[st.Size()] = e.ino
		id.byTime[st.ModTime().Unix()] = e.ino
		id.path[e.ino] = full
	}
	s.id = id
	return id
}

func c02InoStr(n int, ok bool) string {
	if !ok {
		return "?"
	}
	return strconv.Itoa(n)
}

// c02CondHeaders renders the cond field as request headers.
func c02CondHeaders(cond string, id *fsIdent) string {
	var b strings.Builder
	tag := func(it string) string {
		switch {
		case it == "*":
			return "*"
		case it == "g":
			return "not-a-tag"
		case strings.HasPrefix(it, "s"), strings.HasPrefix(it, "w"):
			k, _ := strconv.Atoi(it[1:])
			et := id.etag[k]
			if et == "" {
				et = fmt.Sprintf(`"nofile%d"`, k)
			}
			if it[0] == 'w' {
				return "W/" + et
			}
			return et
		}
		return it
	}
	date := func(v string) string {
		if v == "g" {
			return "yesterday"
		}
		n, _ := strconv.ParseInt(v, 10, 64)
		return time.Unix(fsBaseTime+n, 0).UTC().Format(http.TimeFormat)
	}
	for _, part := range strings.Split(cond, ";") {
		k, v, _ := strings.Cut(part, "=")
		switch k {
		case "inm":
			items := strings.Split(v, ",")
			for i := range items {
				items[i] = tag(items[i])
			}
			fmt.Fprintf(&b, "If-None-Match: %s\r\n", strings.Join(items, ", "))
		case "ims":
			fmt.Fprintf(&b, "If-Modified-Since: %s\r\n", date(v))
		case "range":
			if v == "g" {
				b.WriteString("Range: lines=1-2\r\n")
			} else {
				fmt.Fprintf(&b, "Range: bytes=%s\r\n", v)
			}
		case "x":
			what, arg, _ := strings.Cut(v, ":")
			switch what {
			case "ifmatch":
				fmt.Fprintf(&b, "If-Match: %s\r\n", tag(arg))
			case "ius":
				fmt.Fprintf(&b, "If-Unmodified-Since: %s\r\n", date(arg))
			case "ifrange":
				fmt.Fprintf(&b, "If-Range: %s\r\nRange: bytes=1-4\r\n", tag(arg))
			case "multi":
				b.WriteString("Range: bytes=0-1,4-6\r\n")
			}
		}
	}
	return b.String()
}

// chain=true (C03): Content-Encoding is not reported, weak entity tags (gzip directive) are
// read as strong ones, a body compressed on the fly is decoded, Content-Length is not required.
func c02CondRender(method string, resp *http.Response, body []byte, rerr error, id *fsIdent, explored bool, chain bool) (string, string) {
	st := resp.StatusCode
	h := resp.Header
	isFileAnswer := h.Get("Etag") != "" || st == 416
	if !isFileAnswer || (st != 200 && st != 206 && st != 304 && st != 412 && st != 416) || strings.HasPrefix(h.Get("Content-Disposition"), "attachment") {
		// an answer that is not about a file's content must not carry a file's metadata either
		e, okE := id.byEtag[strings.TrimPrefix(h.Get("Etag"), "W/")]
		l, okL := 0, false
		if t, err := http.ParseTime(h.Get("Last-Modified")); err == nil {
			l, okL = id.byTime[t.Unix()]
		}
		if (okE || okL) && st != 200 {
			if !okE {
				e = l
			}
			if !okL {
				l = e
			}
			return fmt.Sprintf("X\t%d\t%d\tin-%d", e, l, st), "metadata-in-error"
		}
		return fsRender(method, resp, body, rerr, !chain)
	}
	ce := h.Get("Content-Encoding")
	if ce == "" || chain {
		ce = "-"
	}
	if chain && len(body) > 2 && body[0] == 0x1f && body[1] == 0x8b {
		if zr, err := gzip.NewReader(bytes.NewReader(body)); err == nil {
			if d, err := io.ReadAll(zr); err == nil {
				body = d
			}
		}
	}
	head := method == "HEAD"
	etagIno, okE := id.byEtag[strings.TrimPrefix(h.Get("Etag"), "W/")]
	lmIno, okL := 0, false
	if lm := h.Get("Last-Modified"); lm != "" {
		if t, err := http.ParseTime(lm); err == nil {
			lmIno, okL = id.byTime[t.Unix()]
		}
	}
	content := func(ino int) []byte {
		b, _ := os.ReadFile(id.path[ino])
		return b
	}
	// which inode do the length headers name?
	lenIno, okN := 0, false
	if cl := h.Get("Content-Length"); cl != "" && st == 200 {
		n, _ := strconv.ParseInt(cl, 10, 64)
		lenIno, okN = id.bySize[n]
	}
	crA, crB, crIno, okC := int64(0), int64(0), 0, false
	if cr := h.Get("Content-Range"); cr != "" {
		var total int64
		if _, err := fmt.Sscanf(cr, "bytes %d-%d/%d", &crA, &crB, &total); err == nil {
			crIno, okC = id.bySize[total]
		} else if _, err := fmt.Sscanf(cr, "bytes */%d", &total); err == nil {
			crIno, okC = id.bySize[total]
			crA, crB = -1, -1
		}
	}
	bodyOK := func() string {
		if head || st == 304 || st == 412 || st == 416 {
			return ""
		}
		if rerr != nil {
			return "\tbody-truncated"
		}
		if !okE {
			return "\tbody-unknown"
		}
		full := content(etagIno)
		ct := h.Get("Content-Type")
		switch {
		case st == 200:
			if !bytes.Equal(body, full) {
				return "\tbody-bad"
			}
		case st == 206 && strings.HasPrefix(ct, "multipart/byteranges"):
			_, params, _ := mime.ParseMediaType(ct)
			mr := multipart.NewReader(bytes.NewReader(body), params["boundary"])
			for {
				p, err := mr.NextPart()
				if err != nil {
					break
				}
				var a, b, total int64
				fmt.Sscanf(p.Header.Get("Content-Range"), "bytes %d-%d/%d", &a, &b, &total)
				pb, _ := io.ReadAll(p)
				if total != int64(len(full)) || b >= total || !bytes.Equal(pb, full[a:b+1]) {
					return "\tbody-bad"
				}
			}
		case st == 206:
			if !okC || crIno != etagIno || crB >= int64(len(full)) || crA > crB+1 || !bytes.Equal(body, full[crA:crB+1]) {
				return "\tbody-bad"
			}
		}
		return ""
	}
	if explored {
		return "X\t" + c02InoStr(etagIno, okE) + "\t" + c02InoStr(lmIno, okL) + bodyOK(), fmt.Sprintf("explored-%d", st)
	}
	pre := "C"
	if head {
		pre = "CH"
	}
	switch st {
	case 304:
		extra := ""
		if h.Get("Last-Modified") != "" {
			extra = "\tlm=" + c02InoStr(lmIno, okL)
		}
		return "C304\t" + c02InoStr(etagIno, okE) + extra, "304"
	case 416:
		if h.Get("Content-Range") != "" {
			return "C416\t" + c02InoStr(crIno, okC), "416"
		}
		return "C416\t-", "416"
	case 200:
		fI := c02InoStr(etagIno, okE)
		if (!okN || lenIno != etagIno) && !chain {
			fI += "/len=" + c02InoStr(lenIno, okN)
		}
		return fmt.Sprintf("%s200\t%s\t%s\t%s%s", pre, ce, fI, c02InoStr(lmIno, okL), bodyOK()), "200"
	case 206:
		fI := c02InoStr(etagIno, okE)
		if !okC || crIno != etagIno {
			fI += "/range=" + c02InoStr(crIno, okC)
		}
		return fmt.Sprintf("%s206\t%s\t%s\t%s\t%d-%d%s", pre, ce, fI, c02InoStr(lmIno, okL), crA, crB, bodyOK()), "206"
	}
	return fmt.Sprintf("C%d-unexpected", st), "unexpected"
}

