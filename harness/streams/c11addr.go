//go:build c11

package streams

import (
	"strconv"
	"strings"

	"github.com/tmpim/casket/caskethttp/proxy"

	"verifharness/hx"
)

// Upstream addresses of c11.setup.
//
// The classes of c11Core / c11More hold a handful of fixed addresses (`localhost:1`, `http://localhost:1-3/x`, …): in all of
// them the LAST colon sits in the authority, and no delimiter ever appears in the path.  proxy's parseUpstream (and
// fastcgi's address handling) cut the address up by searching for ':', '/', '-' and "://" — which of those is found
// first / last, and therefore which slice bounds come out, depends on where the delimiters sit in EVERY part.  So an
// address is generated here part by part:
//
//	scheme      "" http:// https://              (+ srv:// srv+https:// unix: quic:// and no authority at all)
//	host        localhost 127.0.0.1 [::1]
//	port        none, a port, a port range, an inverted range
//	path        none, "/", and every delimiter of c11AddrDelims at the start, in the middle and at the end of a segment,
//	            in a later segment, before a further slash, and twice; plus the shapes of c11AddrPaths (a colon followed
//	            by something that looks like a port or a port range, `a--b`, a second authority inside the path, …)
//
// and each address is used as the `to` argument (`proxy / ADDR`) and as an `upstream ADDR` line of the sub-block, for
// every directive whose package has a `case "upstream":` clause (proxy, fastcgi).
var c11AddrDelims = []string{":", "-", "/", "?", "#", "@", "%", "[", "]", "=", "&", ";", ",", "+", ".", "*", "~", "\\", "$", "!", "|"}

var c11AddrPaths = []string{"", "/", "/x", "/v1:batch", "/a:b", "/a:1-3", "/a:3-1", "/a:1-3/x", "/a:b-c", "/a:1--3", "/a--b", "/a:b/c:d",
	"/:", "/::", "//a:b", "/a:b:c", "/a-b:c", "/a:-", "/[::1]:80", "/http://x:1", "/a:99999999999999999999-1", "/a:1-99999", "/:1-3", "/a/:/b"}

var c11AddrSchemes = []string{"", "http://", "https://"}
var c11AddrHosts = []string{"localhost", "127.0.0.1", "[::1]"}
var c11AddrPorts = []string{"", ":8080", ":1-3", ":3-1"}

// addresses every directive is tried with as an ordinary argument (first, second and third position)
var c11AddrVals = []string{"http://localhost/v1:batch", "http://localhost:8080/v1:batch", "localhost/a:b", "localhost:1/a:1-3", "http://localhost/a:1-3/x", "https://[::1]/a:b"}

func c11DelimPaths() []string {
	var out []string
	for _, c := range c11AddrDelims {
		out = append(out, "/"+c, "/"+c+"b", "/a"+c, "/a"+c+"b", "/a/b"+c+"c", "/a"+c+"b/c", "/a"+c+"b"+c+"c")
	}
	return out
}

// c11Addrs: the address list (distinct, in generation order).
func c11Addrs(r *hx.Rng, thorough bool) []string {
	seen := map[string]bool{}
	var out []string
	add := func(a string) {
		if a != "" && !seen[a] && !strings.ContainsAny(a, " \t\n\"{}") {
			seen[a] = true
			out = append(out, a)
		}
	}
	// every scheme x host x port with the hand-picked paths
	for _, p := range c11AddrPaths {
		for _, s := range c11AddrSchemes {
			for _, h := range c11AddrHosts {
				for _, pt := range c11AddrPorts {
					add(s + h + pt + p)
				}
			}
		}
		add("srv://a" + p)
		add("srv+https://a" + p)
		add("unix:/tmp/none.sock" + p)
		add("quic://localhost" + p)
		add("://localhost" + p)
		add(p) // no authority at all
		add(":" + p)
	}
	// every delimiter in every position of the path: every scheme x port on one host, the other hosts once
	for _, p := range c11DelimPaths() {
		for _, s := range c11AddrSchemes {
			for _, pt := range c11AddrPorts {
				add(s + "localhost" + pt + p)
			}
		}
		add("http://127.0.0.1" + p)
		add("[::1]" + p)
	}
	// random paths over the delimiter alphabet
	N := 300
	if thorough {
		N = 4000
	}
	alpha := []string{"a", "b", "1", "3", ":", ":", "-", "/", "/", "?", "#", "@", "%", ".", "=", "&", "[", "]"}
	for i := 0; i < N; i++ {
		var sb strings.Builder
		sb.WriteString(hx.Pick(r, c11AddrSchemes))
		sb.WriteString(hx.Pick(r, c11AddrHosts))
		sb.WriteString(hx.Pick(r, c11AddrPorts))
		sb.WriteByte('/')
		for k := 1 + r.Intn(8); k > 0; k-- {
			sb.WriteString(hx.Pick(r, alpha))
		}
		add(sb.String())
	}
	return out
}

// c11AddrCases emits the address configurations of one directive; hasUpstream = its package has `case "upstream":`.
func c11AddrCases(d string, hasUpstream bool, addrs []string, emit func(cfg string)) {
	for _, a := range c11AddrVals {
		emit(c11Config(d, []string{a}, nil, false, ""))
		for _, lead := range [][]string{{"/"}, {"a"}, {"/", "a"}} {
			emit(c11Config(d, append(append([]string{}, lead...), a), nil, false, ""))
		}
	}
	if !hasUpstream {
		return
	}
	for _, a := range addrs {
		emit(c11Config(d, []string{"/", a}, nil, false, ""))
		emit(c11Config(d, []string{"/", "a"}, [][]string{{"upstream", a}}, true, ""))
	}
	// next to an ordinary address, and without any `to` argument
	for _, a := range c11AddrVals {
		emit(c11Config(d, []string{"/", "localhost:1", a}, nil, false, ""))
		emit(c11Config(d, []string{"/"}, [][]string{{"upstream", a}}, true, ""))
		emit(c11Config(d, []string{"/", a}, [][]string{{"upstream", a}, {"upstream", "localhost:1"}}, true, ""))
	}
}

// ---------------------------------------------------------------- c11.upstream

// c11.upstream  addrhex
//
// The tie for Model/UpstreamAddr.lean: the real proxy.parseUpstream on one address.
//
//	out = err | h:<count>:<first host hex>:<last host hex>        (a panic becomes PANIC:<msg> in the framework)
func c11UpstreamEval(f []string) (string, []string) {
	if len(f) != 1 {
		return "bad-case", nil
	}
	u := hx.UnHS(f[0])
	hosts, err := proxy.VerifParseUpstream(u)
	colon := strings.LastIndex(u, ":")
	tags := []string{}
	switch {
	case colon < 0:
		tags = append(tags, "trivial-no-colon")
	case c11PathStart(u) >= 0 && c11PathStart(u) < colon:
		tags = append(tags, "last-colon-behind-a-slash")
	default:
		tags = append(tags, "last-colon-in-authority")
	}
	if err != nil {
		return "err", append(tags, "err")
	}
	if len(hosts) == 0 {
		return "h:0::", append(tags, "no-hosts")
	}
	if len(hosts) > 1 {
		tags = append(tags, "range")
	}
	return "h:" + strconv.Itoa(len(hosts)) + ":" + hx.HS(hosts[0]) + ":" + hx.HS(hosts[len(hosts)-1]), tags
}

func c11UpstreamGen(g *hx.Gen) {
	r := g.Rng
	seen := map[string]bool{}
	emit := func(a string) {
		if !seen[a] {
			seen[a] = true
			g.Case(hx.HS(a))
		}
	}
	emit("")
	for _, a := range c11Addrs(r, g.Thorough()) {
		emit(a)
	}
	for _, a := range append(append([]string{}, c11Core...), c11More...) {
		emit(a)
	}
	// every string of up to 4 (thorough 5) pieces over the delimiters the function looks for
	small := []string{":", "/", "-", "a", "1", "://"}
	maxLen := 4
	if g.Thorough() {
		maxLen = 5
	}
	var rec func(p string, n int)
	rec = func(p string, n int) {
		emit(p)
		emit("h" + p)
		if n == 0 {
			return
		}
		for _, s := range small {
			rec(p+s, n-1)
		}
	}
	rec("", maxLen)
	// random strings over a wider alphabet
	N := 20000
	if g.Thorough() {
		N = 200000
	}
	alpha := []string{"a", "h", "1", "2", "3", "9", "0", ":", ":", "-", "-", "/", "/", "://", "+", "?", "#", "@", "[", "]", ".", "unix:", "srv://", "srv+https://", "http://", "65535", "65536"}
	for i := 0; i < N; i++ {
		var sb strings.Builder
		for k := r.Intn(9); k > 0; k-- {
			sb.WriteString(hx.Pick(r, alpha))
		}
		emit(sb.String())
	}
}

func init() {
	hx.Register(&hx.Stream{ID: "C11", Name: "c11.upstream", Gen: c11UpstreamGen, Eval: c11UpstreamEval})
}

// c11PathStart: the first slash behind the scheme (coverage tag only).
func c11PathStart(u string) int {
	from := 0
	if i := strings.Index(u, "://"); i >= 0 {
		from = i + 3
	}
	if j := strings.Index(u[from:], "/"); j >= 0 {
		return from + j
	}
	return -1
}
