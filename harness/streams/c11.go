//go:build c11

package streams

import (
	"fmt"
	"go/ast"
	"go/parser"
	"go/token"
	"io"
	"log"
	"os"
	"path/filepath"
	"runtime"
	"sort"
	"strconv"
	"strings"
	"time"

	"github.com/tmpim/casket"
	"github.com/tmpim/casket/casketfile"
	_ "github.com/tmpim/casket/caskethttp"

	"verifharness/facts"
	"verifharness/hx"
)

// Streams of C11.
//
//	c11.disp    random token streams x random method sequences against the real casketfile.Dispenser
//	            (the tie for Model/Dispenser.lean)
//	c11.setup   SEARCH (supporting only): for every registered directive, argument lists of every lexical class
//	            and sub-blocks over the directive's own keyword vocabulary (harvested from the `case "..."`
//	            literals of its package) through casket.ValidateAndExecuteDirectives, in validate mode and in
//	            start mode, each under recover and a watchdog.  out = total | PANIC:… | TIMEOUT:… | DISAGREE:…

const c11Watchdog = 3 * time.Second

// ---------------------------------------------------------------- c11.disp

// c11.disp  tokens  ops
//
//	tokens = comma list file:line:texthex
//	ops    = string over  n(Next) a(NextArg) l(NextLine) b(NextBlock) B(NextBlockNesting(1)) r(RemainingArgs) 2(Args with 2 targets)
//	         v(Val) i(Line) f(File) N(Nesting)
//	out    = per op its result, joined by ";" — booleans 0/1, strings hex, args comma-joined hex, and finally "|"+Val+":"+Line+":"+Nesting
func c11DispEval(f []string) (string, []string) {
	if len(f) != 2 {
		return "bad-case", nil
	}
	var toks []casketfile.Token
	if f[0] != "" {
		for _, t := range strings.Split(f[0], ",") {
			p := strings.SplitN(t, ":", 3)
			ln, _ := strconv.Atoi(p[1])
			toks = append(toks, casketfile.Token{File: p[0], Line: ln, Text: hx.UnHS(p[2])})
		}
	}
	d := casketfile.NewDispenserTokens("Testfile", toks)
	var out []string
	b := func(x bool) string {
		if x {
			return "1"
		}
		return "0"
	}
	moved := 0
	for _, op := range f[1] {
		switch op {
		case 'n':
			r := d.Next()
			out = append(out, b(r))
			if r {
				moved++
			}
		case 'a':
			r := d.NextArg()
			out = append(out, b(r))
			if r {
				moved++
			}
		case 'l':
			r := d.NextLine()
			out = append(out, b(r))
			if r {
				moved++
			}
		case 'b':
			out = append(out, b(d.NextBlock()))
		case 'B':
			out = append(out, b(d.NextBlockNesting(1)))
		case 'r':
			args := d.RemainingArgs()
			hs := make([]string, len(args))
			for i, a := range args {
				hs[i] = hx.HS(a)
			}
			out = append(out, "["+strings.Join(hs, ",")+"]")
		case '2':
			x, y := "<unset>", "<unset>"
			r := d.Args(&x, &y)
			out = append(out, b(r)+"["+hx.HS(x)+","+hx.HS(y)+"]")
		case 'v':
			out = append(out, hx.HS(d.Val()))
		case 'i':
			out = append(out, strconv.Itoa(d.Line()))
		case 'f':
			out = append(out, d.File())
		case 'N':
			out = append(out, strconv.Itoa(d.Nesting()))
		}
	}
	res := strings.Join(out, ";") + "|" + hx.HS(d.Val()) + ":" + strconv.Itoa(d.Line()) + ":" + strconv.Itoa(d.Nesting())
	tags := []string{"tokens=" + c11Bucket(len(toks)), "ops=" + c11Bucket(len(f[1]))}
	if moved == 0 {
		tags = append(tags, "trivial-cursor-never-moved")
	}
	if strings.ContainsAny(f[1], "bB") {
		tags = append(tags, "block")
	}
	return res, tags
}

func c11Bucket(n int) string {
	switch {
	case n == 0:
		return "0"
	case n <= 3:
		return "1-3"
	case n <= 8:
		return "4-8"
	}
	return "9+"
}

func c11DispGen(g *hx.Gen) {
	r := g.Rng
	texts := []string{"a", "b", "{", "}", "{", "}", "", "x\ny", "import", "arg"}
	ops := "nalbBr2vifN"
	// exhaustive: every token list up to 3 tokens over {a, "{", "}"} x line patterns, every op string up to length 3
	small := []string{"a", "{", "}"}
	maxOps := 3
	if g.Thorough() {
		maxOps = 4
	}
	var opStrings []string
	var rec func(p string, n int)
	rec = func(p string, n int) {
		opStrings = append(opStrings, p)
		if n == 0 {
			return
		}
		for _, o := range "nalbBr" {
			rec(p+string(o), n-1)
		}
	}
	rec("", maxOps)
	for n := 0; n <= 3; n++ {
		total := 1
		for i := 0; i < n; i++ {
			total *= len(small) * 2
		}
		for code := 0; code < total; code++ {
			c := code
			line := 1
			var ts []string
			for i := 0; i < n; i++ {
				t := small[c%len(small)]
				c /= len(small)
				if c%2 == 1 {
					line++
				}
				c /= 2
				ts = append(ts, fmt.Sprintf(":%d:%s", line, hx.HS(t)))
			}
			for _, os := range opStrings {
				g.Case(strings.Join(ts, ","), os)
			}
		}
	}
	N := 6000
	if g.Thorough() {
		N = 150000
	}
	for i := 0; i < N; i++ {
		n := r.Intn(10)
		line := 1 + r.Intn(3)
		file := ""
		var ts []string
		for k := 0; k < n; k++ {
			switch r.Intn(6) {
			case 0:
				line += 1 + r.Intn(2)
			case 1:
				if r.Chance(1, 4) {
					file = hx.Pick(r, []string{"", "f0", "f1"})
				}
			case 2:
				if r.Chance(1, 6) {
					line = 1 + r.Intn(4) // spliced snippet: line numbers go back
				}
			}
			ts = append(ts, fmt.Sprintf("%s:%d:%s", file, line, hx.HS(hx.Pick(r, texts))))
		}
		m := 1 + r.Intn(12)
		var sb strings.Builder
		for k := 0; k < m; k++ {
			sb.WriteByte(ops[r.Intn(len(ops))])
		}
		g.Case(strings.Join(ts, ","), sb.String())
	}
}

// ---------------------------------------------------------------- c11.setup

var c11Tmp string
var c11Rel string // c11Tmp relative to the working directory (placeholder @R@)
var c11Files = map[string]string{}

func c11Setup() error {
	log.SetOutput(io.Discard)
	casket.Quiet = true // a start prints "Activating privacy features..." on stdout otherwise (it would end up in a replayed answer)
	if c11IsWorker() {
		c11Tmp = os.Getenv(c11WorkerEnv) // the parent's directory; the parent removes it
		c11SetRel()
		return nil
	}
	d, err := os.MkdirTemp("", "c11-")
	if err != nil {
		return err
	}
	c11Tmp = d
	c11SetRel()
	os.WriteFile(filepath.Join(d, "htpasswd"), []byte("bob:{SHA}W6ph5Mm5Pz8GgiULbPgzG37mj9g=\n"), 0o644)
	os.WriteFile(filepath.Join(d, "bad.htpasswd"), []byte("no colon here\n"), 0o644)
	os.WriteFile(filepath.Join(d, "file.txt"), []byte("hello {{.}}\n"), 0o644)
	os.Mkdir(filepath.Join(d, "dir"), 0o755)
	return c11ReloadFiles(d)
}

// basicauth joins the name after htpasswd= to the site root ("." unless a root directive says otherwise), so an
// absolute name is never found: @R@ names the harness directory relative to the working directory.
func c11SetRel() {
	c11Rel = c11Tmp
	if wd, err := os.Getwd(); err == nil {
		if r, err := filepath.Rel(wd, c11Tmp); err == nil {
			c11Rel = r
		}
	}
}

func c11Teardown() {
	if c11IsWorker() {
		return
	}
	c11KillWorkers()
	if c11Tmp != "" {
		os.RemoveAll(c11Tmp)
	}
}

type c11res struct {
	err error
	pan interface{}
}

var c11Loads int // loads since the case began (worker process)

func c11RunMode(body []byte, validate bool) (string, string) {
	c11Loads++
	ch := make(chan c11res, 1)
	go func() {
		defer func() {
			if r := recover(); r != nil {
				ch <- c11res{pan: r}
			}
		}()
		in := casket.CasketfileInput{Filepath: filepath.Join(c11Tmp, "Casketfile"), Contents: body, ServerTypeName: "http"}
		var inst *casket.Instance
		if !validate {
			inst = casket.VerifNewInstance("http")
		}
		ch <- c11res{err: casket.ValidateAndExecuteDirectives(in, inst, validate)}
	}()
	select {
	case r := <-ch:
		if r.pan != nil {
			return "PANIC", strings.SplitN(fmt.Sprint(r.pan), "\n", 2)[0]
		}
		if r.err != nil {
			return "err", r.err.Error()
		}
		return "ok", ""
	case <-time.After(c11Watchdog):
		return "TIMEOUT", ""
	}
}

// c11.setup  directive  confighex     (the placeholder @T@ in the config is the harness' temp directory)
//
// The harness process hands the case to its worker process (c11iso.go); the worker runs c11SetupLocal.
func c11SetupEval(f []string) (string, []string) {
	if len(f) != 2 {
		return "bad-case", nil
	}
	if !c11IsWorker() {
		return c11Isolated("c11.setup", f, 4, "total")
	}
	return c11InWorker(c11SetupLocal, f)
}

// c11InWorker runs one case in the worker process and wraps answer and tags into the worker's answer line.
func c11InWorker(eval func([]string) (string, []string), f []string) (out string, tags []string) {
	if f[0] == c11Ping { // the parent wants to know whether the process is still alive a moment after a case
		time.Sleep(3 * time.Millisecond)
		return c11WorkerAnswer("pong", nil), nil
	}
	before := runtime.NumGoroutine()
	c11Loads = 0
	defer func() {
		if r := recover(); r != nil { // a panic of the harness' own code
			out, tags = "PANIC:harness:"+strings.SplitN(fmt.Sprint(r), "\n", 2)[0], []string{"dir=" + f[0]}
		}
		c11Settle(before)
		// for the parent (askSettled): goroutines left behind per load, rounded up
		grew, loads := runtime.NumGoroutine()-before, c11Loads
		if loads > 1 && grew > 0 {
			grew = (grew + loads - 1) / loads
		}
		tags = append(tags, fmt.Sprintf("grew=%d", grew))
		out, tags = c11WorkerAnswer(out, tags), nil
	}()
	return eval(f)
}

func c11SetupLocal(f []string) (string, []string) {
	body := []byte(strings.ReplaceAll(strings.ReplaceAll(hx.UnHS(f[1]), "@T@", c11Tmp), "@R@", c11Rel))
	v, vmsg := c11RunMode(body, true)
	s, smsg := "skipped", ""
	if v != "TIMEOUT" { // the hung validation still holds whatever it holds: a start now would only tell the same story
		s, smsg = c11RunMode(body, false)
	}
	tags := []string{"dir=" + f[0], "validate=" + v}
	out := "total"
	switch {
	case v == "PANIC":
		out = "PANIC:validate:" + vmsg
	case s == "PANIC":
		out = "PANIC:start:" + smsg
	case v == "TIMEOUT":
		out = "TIMEOUT:validate"
	case s == "TIMEOUT":
		out = "TIMEOUT:start"
	case v != s:
		out = "DISAGREE:validate=" + v + ",start=" + s + ":" + strings.SplitN(vmsg+smsg, "\n", 2)[0]
	}
	if v == "err" && strings.Contains(vmsg, "Unknown directive") {
		tags = append(tags, "trivial-unknown-directive")
	}
	if strings.Contains(string(body), "{\n") {
		tags = append(tags, "sub-block")
	}
	return strings.ReplaceAll(strings.ReplaceAll(out, c11Rel, "@R@"), c11Tmp, "@T@"), tags
}

// the package directory of each directive (the anchors of C11)
var c11Pkg = map[string]string{
	"basicauth": "caskethttp/basicauth", "bind": "caskethttp/bind", "browse": "caskethttp/browse", "errors": "caskethttp/errors",
	"expvar": "caskethttp/expvar", "ext": "caskethttp/extensions", "fastcgi": "caskethttp/fastcgi", "gzip": "caskethttp/gzip",
	"header": "caskethttp/header", "index": "caskethttp/index", "internal": "caskethttp/internalsrv", "limits": "caskethttp/limits",
	"log": "caskethttp/log", "markdown": "caskethttp/markdown", "mime": "caskethttp/mime", "pprof": "caskethttp/pprof",
	"proxy": "caskethttp/proxy", "push": "caskethttp/push", "redir": "caskethttp/redirect", "request_id": "caskethttp/requestid",
	"rewrite": "caskethttp/rewrite", "root": "caskethttp/root", "status": "caskethttp/status", "templates": "caskethttp/templates",
	"timeouts": "caskethttp/timeouts", "tryfiles": "caskethttp/tryfiles", "websocket": "caskethttp/websocket", "tls": "caskettls", "on": "onevent",
}

// c11Pkg parses the non-test files of one package directory.
func c11ParsePkg(repo, pkg string) []*ast.File {
	var out []*ast.File
	files, _ := filepath.Glob(filepath.Join(repo, pkg, "*.go"))
	sort.Strings(files)
	for _, fn := range files {
		if strings.HasSuffix(fn, "_test.go") {
			continue
		}
		if af, err := parser.ParseFile(token.NewFileSet(), fn, nil, 0); err == nil {
			out = append(out, af)
		}
	}
	return out
}

func c11Word(s string) bool {
	return s != "" && len(s) < 30 && !strings.ContainsAny(s, " \t\n\"{}")
}

// c11Consts: the package-level string constants (a keyword is often compared by name: `what == directiveRotateKeep`).
func c11Consts(files []*ast.File) map[string]string {
	out := map[string]string{}
	for _, af := range files {
		for _, d := range af.Decls {
			gd, ok := d.(*ast.GenDecl)
			if !ok || (gd.Tok != token.CONST && gd.Tok != token.VAR) {
				continue
			}
			for _, sp := range gd.Specs {
				vs, ok := sp.(*ast.ValueSpec)
				if !ok {
					continue
				}
				for i, n := range vs.Names {
					if i < len(vs.Values) {
						if bl, ok := vs.Values[i].(*ast.BasicLit); ok && bl.Kind == token.STRING {
							if v, err := strconv.Unquote(bl.Value); err == nil {
								out[n.Name] = v
							}
						}
					}
				}
			}
		}
	}
	return out
}

// c11Harvest adds the words a piece of code compares tokens with: string literals, and named string constants, in
// `case` clauses and ==/!= comparisons and as map keys of composite literals (tables like SupportedProtocols).
func c11Harvest(n ast.Node, consts map[string]string, seen map[string]bool) {
	add := func(e ast.Expr) {
		switch x := e.(type) {
		case *ast.BasicLit:
			if x.Kind == token.STRING {
				if s, err := strconv.Unquote(x.Value); err == nil && c11Word(s) {
					seen[s] = true
				}
			}
		case *ast.Ident:
			if v, ok := consts[x.Name]; ok && c11Word(v) {
				seen[v] = true
			}
		}
	}
	ast.Inspect(n, func(n ast.Node) bool {
		switch x := n.(type) {
		case *ast.CaseClause:
			for _, e := range x.List {
				add(e)
			}
		case *ast.BinaryExpr:
			if x.Op == token.EQL || x.Op == token.NEQ {
				add(x.X)
				add(x.Y)
			}
		case *ast.CompositeLit:
			// keys of small tables (SupportedProtocols, supportedKeyTypes, …); big data tables (the MIME
			// defaults) would only multiply the same case
			if _, isMap := x.Type.(*ast.MapType); isMap && len(x.Elts) <= 40 {
				for _, el := range x.Elts {
					if kv, ok := el.(*ast.KeyValueExpr); ok {
						add(kv.Key)
					}
				}
			}
		}
		return true
	})
}

// c11CaseWords: the words of a package that label a `case` clause — the names of its sub-directives (and of the
// directive-level keywords), without the value tables (cipher names, curves, policies) the full vocabulary has.
func c11CaseWords(repo, pkg string) []string {
	files := c11ParsePkg(repo, pkg)
	consts := c11Consts(files)
	seen := map[string]bool{}
	for _, af := range files {
		ast.Inspect(af, func(n ast.Node) bool {
			if cc, ok := n.(*ast.CaseClause); ok {
				for _, e := range cc.List {
					switch x := e.(type) {
					case *ast.BasicLit:
						if s, err := strconv.Unquote(x.Value); x.Kind == token.STRING && err == nil && c11Word(s) {
							seen[s] = true
						}
					case *ast.Ident:
						if v, ok := consts[x.Name]; ok && c11Word(v) {
							seen[v] = true
						}
					}
				}
			}
			return true
		})
	}
	var out []string
	for s := range seen {
		out = append(out, s)
	}
	sort.Strings(out)
	return out
}

const c11Module = "github.com/tmpim/casket"

// c11Vocab returns the keyword vocabulary of a directive:
//
//	own    = words compared anywhere in the directive's own package,
//	helper = words compared in the functions of OTHER casket packages that the directive's package calls
//	         (pkg.Func(...)), and in the functions those call inside their own package (two levels) — e.g. the log
//	         roller subdirectives rotate_size / rotate_keep / … that `errors` and `log` hand to httpserver.ParseRoller.
func c11Vocab(repo, pkg string) (own, helper []string) {
	files := c11ParsePkg(repo, pkg)
	ownSeen, helpSeen := map[string]bool{}, map[string]bool{}
	consts := c11Consts(files)
	calls := map[string]map[string]bool{} // helper package dir -> called function names
	for _, af := range files {
		c11Harvest(af, consts, ownSeen)
		imports := map[string]string{} // local name -> package dir
		for _, im := range af.Imports {
			path, _ := strconv.Unquote(im.Path.Value)
			if path != c11Module && !strings.HasPrefix(path, c11Module+"/") {
				continue
			}
			dir := strings.TrimPrefix(strings.TrimPrefix(path, c11Module), "/")
			name := filepath.Base(path)
			if im.Name != nil {
				name = im.Name.Name
			}
			imports[name] = dir
		}
		ast.Inspect(af, func(n ast.Node) bool {
			se, ok := n.(*ast.SelectorExpr)
			if !ok {
				return true
			}
			if id, ok := se.X.(*ast.Ident); ok {
				if dir, ok := imports[id.Name]; ok && dir != pkg {
					if calls[dir] == nil {
						calls[dir] = map[string]bool{}
					}
					calls[dir][se.Sel.Name] = true
				}
			}
			return true
		})
	}
	for dir, names := range calls {
		hfiles := c11ParsePkg(repo, dir)
		hconsts := c11Consts(hfiles)
		funcs := map[string]*ast.FuncDecl{}
		for _, af := range hfiles {
			for _, d := range af.Decls {
				if fd, ok := d.(*ast.FuncDecl); ok && fd.Body != nil {
					funcs[fd.Name.Name] = fd
				}
			}
		}
		done := map[string]bool{}
		var visit func(name string, depth int)
		visit = func(name string, depth int) {
			fd := funcs[name]
			if fd == nil || done[name] {
				return
			}
			done[name] = true
			c11Harvest(fd.Body, hconsts, helpSeen)
			if depth == 0 {
				return
			}
			ast.Inspect(fd.Body, func(n ast.Node) bool {
				if ce, ok := n.(*ast.CallExpr); ok {
					switch f := ce.Fun.(type) {
					case *ast.Ident:
						visit(f.Name, depth-1)
					case *ast.SelectorExpr:
						visit(f.Sel.Name, depth-1) // method of a type of the same package
					}
				}
				return true
			})
		}
		for n := range names {
			visit(n, 1)
		}
	}
	for s := range ownSeen {
		own = append(own, s)
	}
	for s := range helpSeen {
		if !ownSeen[s] {
			helper = append(helper, s)
		}
	}
	sort.Strings(own)
	sort.Strings(helper)
	return own, helper
}

// lexical classes of an argument
var c11Core = []string{"a", "/", "/p", "0", "1", "-1", "404", "5s", "off", "*", "@T@/file.txt", "@T@/nope", "localhost:1", "\"\"", "x=y", "{path}"}
var c11More = []string{"99999999999999999999", "9223372036854775808", "1.5", "1KB", "-1MB", "10h", "-1s", "1x", "abc", "on", "http://localhost:1", "https://127.0.0.1:1",
	"unix:/tmp/none.sock", ":", "::", "[::1]:80", "a,b", "a|b", "(", "[", "**", "\\", "%", "{{", "{{.}", "{", "}", "\"q arg\"", "\"multi\nline\"", "é", "htpasswd=@T@/htpasswd",
	"htpasswd=@R@/htpasswd", "htpasswd=@R@/nope", "htpasswd=@R@/bad.htpasswd", "htpasswd=", "@T@/dir", "@T@", ".", "..", "self_signed", "max", "tls1.2", "tls1.3", "p256", "rsa2048", "localhost:1-3", "localhost:3-1",
	"localhost:a-b", "srv://a", "srv+https://a", "{$CV_NOPE}", "+X", "-X", "X-H", "300", "301", "999", "0.0.0.0/0", "1.2.3.4/33", "::/0", "10", "php", "startup", "shutdown", "{>X}", "!",
	// durations: zero, negative, unit-less, overflowing, fractional (a ticker or a timeout built from one must cope)
	"0s", "-5m", "0", "-0s", "9999999h", "1h2m3s", ".5s", "1ns", "5S",
	// port ranges: huge, overflowing, inverted, empty, negative, outside 0-65535, with scheme and path, IPv6
	"localhost:1-9223372036854775807", "localhost:1-99999999", "localhost:9223372036854775807-9223372036854775808", "localhost:65535-65536",
	"localhost:60000-65535", "localhost:5-5", "localhost:-1-5", "localhost:1--5", "localhost:-5", "localhost:1-", "http://localhost:1-3/x", "[::1]:1-3", "localhost:00001-00003",
	"unix:/tmp/none.sock:1-3"}

// values a sub-block line is tried with besides the malformed ones: the well-formed shapes of every kind of value
// (a failure behind a VALID line is as much a failure), zero / negative durations and numbers, port ranges
var c11BlockVals = []string{"0s", "-1s", "1h", "-1", "off", "localhost:1-99999999999", "localhost:3-1", "localhost:1-3"}

// value pairs for two keyword lines in one block: (path, zero duration), (path, negative duration), …
var c11PairVals = [][2]string{{"/p", "0s"}, {"/p", "-1s"}, {"10s", "0"}, {"0s", "/p"}, {"5", "10s"}, {"-1s", "5"}}

func c11Line(toks []string) string { return strings.Join(toks, " ") }

func c11Config(dir string, args []string, block [][]string, hasBlock bool, tail string) string {
	var sb strings.Builder
	sb.WriteString("localhost:2015 {\n\t")
	sb.WriteString(dir)
	for _, a := range args {
		sb.WriteByte(' ')
		sb.WriteString(a)
	}
	if hasBlock {
		sb.WriteString(" {\n")
		for _, l := range block {
			sb.WriteString("\t\t" + c11Line(l) + "\n")
		}
		sb.WriteString("\t}")
	}
	sb.WriteString(tail)
	sb.WriteString("\n}\n")
	return sb.String()
}

// c11KeysOK: stray braces in the generated arguments can end the server block early and turn later tokens into
// site addresses; a non-loopback address makes a real start obtain a certificate over the network (auto HTTPS,
// C15), which is outside this property.  Only configurations whose site addresses are the loopback ones are kept.
func c11KeysOK(cfg string) bool {
	blocks, err := casketfile.Parse("Casketfile", strings.NewReader(cfg), nil)
	if err != nil {
		return true // rejected by the parser in both modes
	}
	for _, b := range blocks {
		for _, k := range b.Keys {
			if k != "localhost:2015" && k != "localhost:2016" {
				return false
			}
		}
	}
	return true
}

// c11SiteCases: the self-check of the index-site extractor.  For every constant index site x[k] the extractor found
// (the sites the regenerated obligations are about) the real setup is driven with the argument counts around the
// boundary — 0 … k+2 values — in the place the site reads them from: after each sub-block keyword of the enclosing
// `case "kw":` clause, or directly after the directive when the site is at directive level; each count after 0, 1 and
// 2 directive arguments and with three kinds of values.  If the extractor derived a path condition that is too weak
// (the obligation proves although the code can reach the site with a shorter slice) the real code panics here and the
// case is judged bad:panic.
func c11SiteCases(repo string, emit func(dir, cfg string)) {
	sites, err := facts.C11Sites(repo)
	if err != nil {
		panic("c11: index sites: " + err.Error())
	}
	dirOf := map[string]string{}
	for d, pkg := range c11Pkg {
		dirOf[pkg] = d
	}
	vals := func(n, kind int) []string {
		pool := [][]string{{"a", "b", "c", "d", "e"}, {"5", "10", "1", "0", "2"}, {"/p", "5s", "1MB", "on", "x=y"}}[kind]
		return append([]string{}, pool[:n]...)
	}
	seen := map[string]bool{}
	for _, st := range sites {
		d, ok := dirOf[filepath.Dir(st.File)]
		if !ok {
			continue // casket.go, controller.go, dispenser.go: not a directive
		}
		for n := 0; n <= st.K+2 && n <= 5; n++ {
			for kind := 0; kind < 3; kind++ {
				for _, lead := range [][]string{{}, {"/"}, {"/", "a"}} {
					var cfg string
					if len(st.Keywords) == 0 {
						cfg = c11Config(d, append(append([]string{}, lead...), vals(n, kind)...), nil, false, "")
						if !seen[cfg] {
							seen[cfg] = true
							emit(d, cfg)
						}
						cfg = c11Config(d, append(append([]string{}, lead...), vals(n, kind)...), [][]string{}, true, "")
						if !seen[cfg] {
							seen[cfg] = true
							emit(d, cfg)
						}
						continue
					}
					for _, kw := range st.Keywords {
						cfg = c11Config(d, lead, [][]string{append([]string{kw}, vals(n, kind)...)}, true, "")
						if !seen[cfg] {
							seen[cfg] = true
							emit(d, cfg)
						}
						// the keyword as a directive argument as well (`tls off`, `errors visible`, `rewrite not …`)
						cfg = c11Config(d, append([]string{kw}, vals(n, kind)...), nil, false, "")
						if !seen[cfg] {
							seen[cfg] = true
							emit(d, cfg)
						}
					}
				}
			}
		}
	}
}

func c11SetupGen(g *hx.Gen) {
	repo := os.Getenv("VERIF_REPO")
	if repo == "" {
		repo = "/repo"
	}
	var dirs []string
	for _, d := range casket.ValidDirectives("http") {
		if _, err := casket.DirectiveAction("http", d); err == nil {
			dirs = append(dirs, d)
		}
	}
	sort.Strings(dirs)
	r := g.Rng
	all := append(append([]string{}, c11Core...), c11More...)
	// every configuration once; its number fixes which worker process evaluates it and when (c11iso.go)
	count := 0
	gcase := func(d, cfg string) {
		h := hx.HS(cfg)
		if c11KeysOK(cfg) && c11Ordered("c11.setup\t"+d+"\t"+h, count) {
			count++
			g.Case(d, h)
		}
	}
	c11SiteCases(repo, gcase)
	for _, d := range dirs {
		own, helper := c11Vocab(repo, c11Pkg[d])
		vocab := append(append([]string{}, own...), helper...)
		emit := func(cfg string) { gcase(d, cfg) }
		argsets := [][]string{{}}
		// exhaustive: 0..2 arguments over the core classes and the directive's own keywords
		cls := append(append([]string{}, c11Core...), vocab...)
		for _, a := range cls {
			argsets = append(argsets, []string{a})
		}
		for _, a := range c11Core {
			for _, b := range c11Core {
				argsets = append(argsets, []string{a, b})
			}
		}
		// a keyword next to each core class, in both orders (`rewrite not /a`), and a sub-directive name before two values
		caseWords := c11CaseWords(repo, c11Pkg[d])
		for _, kw := range vocab {
			for _, a := range c11Core {
				argsets = append(argsets, []string{kw, a}, []string{a, kw})
			}
		}
		few := []string{"a", "/", "0", "5s", "\"\"", "@T@/file.txt"}
		for _, kw := range caseWords {
			for _, a := range few {
				for _, b := range few {
					argsets = append(argsets, []string{kw, a, b})
				}
			}
		}
		for _, as := range argsets {
			emit(c11Config(d, as, nil, false, ""))
		}
		for _, a := range c11More {
			emit(c11Config(d, []string{a}, nil, false, ""))
			// the rarer classes in second and third position too
			for _, lead := range [][]string{{"/"}, {"a"}, {"/", "a"}, {"0", "1"}} {
				emit(c11Config(d, append(append([]string{}, lead...), a), nil, false, ""))
			}
		}
		// sub-blocks: every keyword with 0..3 arguments, after 0..2 directive arguments
		// sub-blocks: every keyword (the directive's own and its helpers') as a sub-block line with 0..3 values,
		// well-formed ones included (numbers, sizes, durations, booleans, paths: some failures need a VALID line),
		// after every argument shape of the directive: none, a path, a path and a word, and each keyword alone
		// (`errors visible { … }`, `tls off { … }`)
		kws := append(append([]string{}, vocab...), "a", "}", "{", "\"\"")
		one := []string{"a", "\"\"", "0", "/p", "@T@/file.txt", "5", "1MB", "10s", "true"}
		two := [][2]string{{"a", "b"}, {"\"\"", "5"}, {"/p", "0"}, {"0", "\"\""}, {"x", "@T@/file.txt"}, {"5", "10s"}, {"/p", "1MB"}}
		for _, kw := range kws {
			var variants [][]string
			variants = append(variants, []string{kw})
			for _, a := range one {
				variants = append(variants, []string{kw, a})
			}
			for _, a := range c11BlockVals {
				variants = append(variants, []string{kw, a})
			}
			for _, ab := range two {
				variants = append(variants, []string{kw, ab[0], ab[1]})
			}
			variants = append(variants, []string{kw, "a", "b", "c"}, []string{kw, "\"\"", "\"\"", "\"\""})
			for _, lead := range [][]string{{}, {"/"}, {"/", "a"}} {
				for _, v := range variants {
					emit(c11Config(d, lead, [][]string{v}, true, ""))
				}
			}
			// a closing brace in the middle of a line and no line that closes the block after it: the parser ends the
			// directive there while the dispenser still counts an open block
			for _, lead := range [][]string{{}, {"/", "a"}} {
				head := "localhost:2015 {\n\t" + c11Line(append([]string{d}, lead...)) + " {\n\t\t"
				for _, l := range []string{kw + " } x", kw + " a } x", kw + " a\n\t\tb } {{", "a\n\t\t" + kw + " a b } c d"} {
					emit(head + l + "\n}\n")
					emit(head + l + "\n")
				}
			}
			short := [][]string{{kw}, {kw, "5"}, {kw, "/p"}, {kw, "10s"}, {kw, "1MB"}, {kw, "on"}, {kw, "a", "5"}, {kw, "/p", "1MB"}}
			for _, lk := range own {
				for _, v := range short {
					emit(c11Config(d, []string{lk}, [][]string{v}, true, ""))
				}
			}
		}
		// two sub-block lines, both a keyword of the directive with a value: a setting is often only used once another
		// one has switched the feature on (`health_check /p` + `health_check_interval 0s`), in either order
		for _, lead := range [][]string{{}, {"/", "a"}} {
			for _, k1 := range caseWords {
				for _, k2 := range caseWords {
					for _, pv := range c11PairVals {
						emit(c11Config(d, lead, [][]string{{k1, pv[0]}, {k2, pv[1]}}, true, ""))
					}
				}
			}
		}
		// two sub-block lines: a helper keyword next to one of the directive's own
		for _, hk := range helper {
			for _, ok := range own {
				emit(c11Config(d, nil, [][]string{{ok, "/p"}, {hk, "5"}}, true, ""))
				emit(c11Config(d, nil, [][]string{{hk}, {ok, "a"}}, true, ""))
			}
		}
		// malformed shapes
		for _, cfg := range []string{
			"localhost:2015 {\n\t" + d + " {\n}\n", "localhost:2015 {\n\t" + d + " {\n\t\t{\n\t}\n}\n", "localhost:2015\n" + d + " }\n",
			"localhost:2015 {\n\t" + d + " {\n\t}\n\t" + d + "\n}\n", "localhost:2015 {\n\t" + d + " {\n\t\ta {\n\t\t\tb\n\t\t}\n\t}\n}\n",
			"localhost:2015, localhost:2016 {\n\t" + d + " /\n\t" + d + " / a\n}\n", "localhost:2015\n" + d + "\n" + d + " a b c d e\n",
		} {
			emit(cfg)
		}
		// random: 0..4 arguments of any class, blocks of 0..3 lines
		N := 400
		if g.Thorough() {
			N = 5000
		}
		for i := 0; i < N; i++ {
			na := r.Intn(5)
			args := make([]string, na)
			for k := range args {
				if len(vocab) > 0 && r.Chance(1, 4) {
					args[k] = hx.Pick(r, vocab)
				} else {
					args[k] = hx.Pick(r, all)
				}
			}
			var block [][]string
			hasBlock := r.Chance(1, 2)
			if hasBlock {
				for l := r.Intn(4); l > 0; l-- {
					kw := hx.Pick(r, all)
					if len(vocab) > 0 && r.Chance(4, 5) {
						kw = hx.Pick(r, vocab)
					}
					line := []string{kw}
					for k := r.Intn(4); k > 0; k-- {
						if len(vocab) > 0 && r.Chance(1, 5) {
							line = append(line, hx.Pick(r, vocab))
						} else if r.Chance(1, 3) {
							line = append(line, hx.Pick(r, append(append([]string{}, one...), c11BlockVals...)))
						} else {
							line = append(line, hx.Pick(r, all))
						}
					}
					block = append(block, line)
				}
			}
			tail := ""
			if r.Chance(1, 10) {
				tail = hx.Pick(r, []string{" extra", " {", " }", "\n\t" + d, "\n\t" + d + " " + hx.Pick(r, all)})
			}
			emit(c11Config(d, args, block, hasBlock, tail))
		}
	}
	// upstream addresses built part by part (c11addr.go); after everything else, so that the cases above are the
	// same as before
	addrs := c11Addrs(r, g.Thorough())
	for _, d := range dirs {
		hasUpstream := false
		for _, w := range c11CaseWords(repo, c11Pkg[d]) {
			hasUpstream = hasUpstream || w == "upstream"
		}
		c11AddrCases(d, hasUpstream, addrs, func(cfg string) { gcase(d, cfg) })
	}
}

func init() {
	hx.Register(&hx.Stream{ID: "C11", Name: "c11.disp", Gen: c11DispGen, Eval: c11DispEval})
	// c11.setup is not Serial: its cases run in c11Slots worker processes, in an order the generator fixes
	hx.Register(&hx.Stream{ID: "C11", Name: "c11.setup", Gen: c11SetupGen, Eval: c11SetupEval, Setup: c11Setup, Teardown: c11Teardown})
}
