//go:build c16

package streams

import (
	"errors"
	"fmt"
	"io"
	"log"
	"net"
	"os"
	"runtime"
	"sort"
	"strconv"
	"strings"
	"sync"
	"time"

	"github.com/tmpim/casket"
	"github.com/tmpim/casket/casketfile"

	"verifharness/hx"
)

// c16.trace  op1  op2  ...           (one field per operation; the k-th op has generation k, 1-based)
//
//   S:<cfg>   casket.Start(cfg)
//   R:<cfg>   casket.Instances()[0].Restart(cfg)      (the instance SIGUSR1 reloads)
//   X         casket.Stop()
//   G<n>      n concurrent calls of executeShutdownCallbacks (what SIGINT/SIGTERM run before exiting)
//   GR:<cfg>  executeShutdownCallbacks on one goroutine and, as soon as its first callback runs, Instances()[0].Restart(cfg) on
//             another: a reload that tries to change the instance list DURING the shutdown pass.  Counts as two operations
//             (two generations, two segments: first what the shutdown pass did, then what the reload did)
//
//   cfg = <servers>/<fail>/<flags>
//     servers  comma list of  <kind><addr>[!]   kind f graceful server whose listener has File(),
//                                                    n graceful server whose listener has no File(),
//                                                    p plain server (no Stop / Address)
//              addr a small number (the Address() key), "!" = Listen() fails, "~" = Stop() returns an error (after stopping)
//     fail     - | parse | setup | make | first | startup      (stage at which loading this config fails)
//     flags    r  the first OnRestart callback of this instance returns an error
//              s  the first OnShutdown callback of this instance returns an error
//              w  the first OnShutdown callback of this instance takes 150 ms (only matters to c16.signal)
//
//   out = segment|segment|...      one per op:  <res>;<events>;<wait bits>
//     res     ok | err | noinst
//     events  comma list: fs su rs rf sd fd <gen>.<callback index>   li in sv st <gen>.<server index>
//     wait    one bit per Start call so far: 1 = Wait() on the instance that Start returned has returned
//
// Everything runs the real casket.Start / Instance.Restart / casket.Stop with a fake server type
// registered through the public plugin API.  Serve runs on goroutines started by casket; its events are
// placed right after the last listen/inherit event of the same instance (the earliest point at which casket can
// have started the goroutine) unless they were observed even earlier, in which case they stay where they were seen.

const c16Type = "veriffake16"

// how long the harness waits for something that must happen (a Serve goroutine starting, Wait returning once every
// server has stopped) before it reports that it did not; generous because the machine may stall under load
const c16PatienceMax = 30 * time.Second

var c16Expired int // how often the patience ran out in this run

// c16Patience: generous on a healthy tree (where nothing ever waits that long); once it has run out three times the run
// is a VIOLATION anyway and the remaining cases only get a short wait, so that the run still ends soon
func c16Patience() time.Duration {
	if c16Expired >= 3 {
		return 50 * time.Millisecond
	}
	return c16PatienceMax
}

type c16Event struct {
	seq  int
	code string // two letters
	gen  int
	idx  int
	gid  int64 // goroutine that recorded it
}

// id of the calling goroutine (from the header of its stack trace)
func c16Gid() int64 {
	var buf [64]byte
	n := runtime.Stack(buf[:], false)
	f := strings.Fields(string(buf[:n]))
	if len(f) < 2 {
		return -1
	}
	id, _ := strconv.ParseInt(f[1], 10, 64)
	return id
}

func (e c16Event) String() string { return fmt.Sprintf("%s%d.%d", e.code, e.gen, e.idx) }

type c16Recorder struct {
	mu      sync.Mutex
	events  []c16Event
	servers []*c16Server
	sink    io.Writer // child process of c16.signal: every event is also written here, one per line
}

var c16rec = &c16Recorder{}

func (r *c16Recorder) log(code string, gen, idx int) {
	r.mu.Lock()
	e := c16Event{len(r.events), code, gen, idx, c16Gid()}
	r.events = append(r.events, e)
	if r.sink != nil {
		io.WriteString(r.sink, e.String()+"\n")
	}
	r.mu.Unlock()
}

func (r *c16Recorder) mark() int {
	r.mu.Lock()
	defer r.mu.Unlock()
	return len(r.events)
}

func (r *c16Recorder) since(m int) []c16Event {
	r.mu.Lock()
	defer r.mu.Unlock()
	return append([]c16Event(nil), r.events[m:]...)
}

// canonical order of one segment: see the comment at the top.
func c16Canon(evs []c16Event) []string {
	var main []c16Event
	serves := map[int][]c16Event{}
	for _, e := range evs {
		if e.code == "sv" {
			serves[e.gen] = append(serves[e.gen], e)
		} else {
			main = append(main, e)
		}
	}
	gens := []int{}
	for g := range serves {
		gens = append(gens, g)
	}
	sort.Ints(gens)
	type ins struct {
		after int // index in main after which the events go; -1 = keep at observed place
		evs   []c16Event
	}
	var out []c16Event
	out = append(out, main...)
	for _, g := range gens {
		sv := serves[g]
		sort.Slice(sv, func(i, j int) bool { return sv[i].idx < sv[j].idx })
		last := -1
		for i, e := range out {
			if e.gen == g && (e.code == "li" || e.code == "in") {
				last = i
			}
		}
		early := last < 0
		for _, e := range sv {
			if last >= 0 && e.seq < out[last].seq {
				early = true
			}
		}
		if early {
			// observed before the instance finished listening: keep the observed order
			all := append(append([]c16Event(nil), out...), sv...)
			sort.SliceStable(all, func(i, j int) bool { return all[i].seq < all[j].seq })
			out = all
			continue
		}
		rest := append([]c16Event(nil), out[last+1:]...)
		out = append(append(out[:last+1:last+1], sv...), rest...)
	}
	// the order in which the servers of one instance are listened, served or stopped is incidental (for the http server
	// type it is the iteration order of a map): sort every run of such events of one instance by server index
	class := func(e c16Event) string {
		switch e.code {
		case "li", "in":
			return "l"
		case "sv", "st":
			return e.code
		}
		return ""
	}
	for i := 0; i < len(out); {
		j := i + 1
		if c := class(out[i]); c != "" {
			for j < len(out) && class(out[j]) == c && out[j].gen == out[i].gen {
				j++
			}
			run := out[i:j]
			sort.SliceStable(run, func(a, b int) bool { return run[a].idx < run[b].idx })
		}
		i = j
	}
	s := make([]string, len(out))
	for i, e := range out {
		s[i] = e.String()
	}
	return s
}

// ---- fake server type ----

type c16Ctx struct {
	inst     *casket.Instance
	gen      int
	servers  []casket.Server
	failMake bool
}

func (c *c16Ctx) InspectServerBlocks(_ string, sb []casketfile.ServerBlock) ([]casketfile.ServerBlock, error) {
	return sb, nil
}

func (c *c16Ctx) MakeServers() ([]casket.Server, error) {
	if c.failMake {
		return nil, errors.New("veriffake: MakeServers fails")
	}
	return c.servers, nil
}

type c16Server struct {
	gen, idx   int
	kind       byte
	addr       string
	listenFail bool
	stopErr    bool
	mu         sync.Mutex
	lns        []net.Listener
	served     chan struct{}
	stopCh     chan struct{}
	stopOnce   sync.Once
	stopped    bool
	servedFlag bool
}

// a listener with File(): hand-over capable
type c16FileLn struct{ *net.TCPListener }

// a listener without File()
type c16PlainLn struct{ net.Listener }

func (s *c16Server) track(ln net.Listener) net.Listener {
	s.mu.Lock()
	s.lns = append(s.lns, ln)
	s.mu.Unlock()
	return ln
}

func (s *c16Server) Listen() (net.Listener, error) {
	if s.listenFail {
		return nil, errors.New("veriffake: Listen fails")
	}
	ln, err := net.Listen("tcp", "127.0.0.1:0")
	if err != nil {
		return nil, err
	}
	c16rec.log("li", s.gen, s.idx)
	if s.kind == 'f' {
		return s.track(c16FileLn{ln.(*net.TCPListener)}), nil
	}
	return s.track(c16PlainLn{ln}), nil
}

func (s *c16Server) ListenPacket() (net.PacketConn, error) { return nil, nil }
func (s *c16Server) ServePacket(net.PacketConn) error      { return nil }

func (s *c16Server) Serve(ln net.Listener) error {
	c16rec.log("sv", s.gen, s.idx)
	s.mu.Lock()
	s.servedFlag = true
	s.mu.Unlock()
	close(s.served)
	<-s.stopCh
	return nil
}

func (s *c16Server) halt() {
	s.stopOnce.Do(func() {
		s.mu.Lock()
		s.stopped = true
		lns := s.lns
		s.mu.Unlock()
		close(s.stopCh)
		for _, ln := range lns {
			ln.Close()
		}
	})
}

// graceful servers add Stop / Address / WrapListener
type c16Graceful struct{ *c16Server }

func (g c16Graceful) Stop() error {
	c16rec.log("st", g.gen, g.idx)
	g.halt()
	if g.stopErr {
		// (the pause bounds the damage should the caller retry in a tight loop)
		time.Sleep(200 * time.Microsecond)
		return errors.New("veriffake: Stop reports an error (as a drain that timed out would)")
	}
	return nil
}

// casket.Stop() under a watchdog: if it has not returned after two seconds (50 ms once the run has seen three hangs) (it loops until the instance list is empty) the
// instance list is emptied from outside so that it can end, and the hang is reported
func c16GuardedStop() (hung bool) {
	done := make(chan struct{})
	go func() { casket.Stop(); close(done) }()
	patience := 2 * time.Second
	if c16Expired >= 3 {
		patience = 50 * time.Millisecond // the run is a VIOLATION by now: do not spend two seconds on every further hang
	}
	select {
	case <-done:
		return false
	case <-time.After(patience):
	}
	c16Expired++
	casket.VerifC16Reset()
	select {
	case <-done:
	case <-time.After(c16Patience()):
	}
	return true
}
func (g c16Graceful) Address() string { return g.addr }
func (g c16Graceful) WrapListener(ln net.Listener) net.Listener {
	if ln == nil {
		return nil
	}
	c16rec.log("in", g.gen, g.idx)
	if tl, ok := ln.(*net.TCPListener); ok && g.kind == 'f' {
		return g.track(c16FileLn{tl})
	}
	return g.track(c16PlainLn{ln})
}

func c16CtxOf(c *casket.Controller) *c16Ctx { return c.Context().(*c16Ctx) }

func c16SetupGen(c *casket.Controller) error {
	ctx := c16CtxOf(c)
	for c.Next() {
		args := c.RemainingArgs()
		if len(args) < 1 {
			return c.ArgErr()
		}
		g, err := strconv.Atoi(args[0])
		if err != nil {
			return c.Err("bad generation")
		}
		ctx.gen = g
		flags := map[string]bool{}
		for _, a := range args[1:] {
			flags[a] = true
		}
		reg := func(code string, add func(func() error), failing bool) {
			for i := 0; i < 2; i++ {
				i := i
				add(func() error {
					c16rec.log(code, g, i)
					if failing && i == 0 {
						return fmt.Errorf("veriffake: %s callback fails", code)
					}
					return nil
				})
			}
		}
		reg("fs", c.OnFirstStartup, flags["first"])
		reg("su", c.OnStartup, flags["startup"])
		reg("rs", c.OnRestart, flags["r"])
		reg("rf", c.OnRestartFailed, false)
		slow := flags["w"]
		c.OnShutdown(func() error {
			c16rec.log("sd", g, 0)
			if slow {
				time.Sleep(150 * time.Millisecond)
			}
			if flags["s"] {
				return fmt.Errorf("veriffake: sd callback fails")
			}
			return nil
		})
		c.OnShutdown(func() error { c16rec.log("sd", g, 1); return nil })
		reg("fd", c.OnFinalShutdown, false)
	}
	return nil
}

func c16SetupSrv(c *casket.Controller) error {
	ctx := c16CtxOf(c)
	for c.Next() {
		args := c.RemainingArgs()
		if len(args) != 3 {
			return c.ArgErr()
		}
		s := &c16Server{gen: ctx.gen, idx: len(ctx.servers), kind: args[0][0], addr: args[1], listenFail: strings.HasPrefix(args[2], "fail"),
			stopErr: strings.HasSuffix(args[2], "+stoperr"),
			served:  make(chan struct{}), stopCh: make(chan struct{})}
		c16rec.mu.Lock()
		c16rec.servers = append(c16rec.servers, s)
		c16rec.mu.Unlock()
		if s.kind == 'p' {
			ctx.servers = append(ctx.servers, s)
		} else {
			ctx.servers = append(ctx.servers, c16Graceful{s})
		}
	}
	return nil
}

func init() {
	casket.RegisterServerType(c16Type, casket.ServerType{
		Directives: func() []string { return []string{"gen", "srv", "boom", "failmake"} },
		NewContext: func(inst *casket.Instance) casket.Context { return &c16Ctx{inst: inst} },
	})
	casket.RegisterPlugin("gen", casket.Plugin{ServerType: c16Type, Action: c16SetupGen})
	casket.RegisterPlugin("srv", casket.Plugin{ServerType: c16Type, Action: c16SetupSrv})
	casket.RegisterPlugin("boom", casket.Plugin{ServerType: c16Type, Action: func(c *casket.Controller) error {
		return c.Err("veriffake: setup fails")
	}})
	casket.RegisterPlugin("failmake", casket.Plugin{ServerType: c16Type, Action: func(c *casket.Controller) error {
		c16CtxOf(c).failMake = true
		return nil
	}})
	hx.Register(&hx.Stream{ID: "C16", Name: "c16.trace", Gen: c16Gen, Eval: c16Eval, Serial: true,
		Setup:    func() error { log.SetOutput(io.Discard); casket.Quiet = true; return nil },
		Teardown: func() { log.SetOutput(os.Stderr) }})
}

// ---- case syntax ----

type c16Srv struct {
	kind    byte
	addr    int
	fail    bool
	stopErr bool
}

type c16Cfg struct {
	servers []c16Srv
	fail    string
	flags   string
}

func (c c16Cfg) String() string {
	var ss []string
	for _, s := range c.servers {
		x := fmt.Sprintf("%c%d", s.kind, s.addr)
		if s.fail {
			x += "!"
		}
		if s.stopErr {
			x += "~"
		}
		ss = append(ss, x)
	}
	f := c.fail
	if f == "" {
		f = "-"
	}
	return strings.Join(ss, ",") + "/" + f + "/" + c.flags
}

func c16ParseCfg(s string) (c16Cfg, bool) {
	p := strings.Split(s, "/")
	if len(p) != 3 {
		return c16Cfg{}, false
	}
	var c c16Cfg
	if p[0] != "" {
		for _, x := range strings.Split(p[0], ",") {
			if len(x) < 2 {
				return c, false
			}
			sv := c16Srv{kind: x[0]}
			if sv.kind != 'f' && sv.kind != 'n' && sv.kind != 'p' {
				return c, false
			}
			if strings.HasSuffix(x, "~") {
				sv.stopErr = true
				x = x[:len(x)-1]
			}
			if strings.HasSuffix(x, "!") {
				sv.fail = true
				x = x[:len(x)-1]
			}
			a, err := strconv.Atoi(x[1:])
			if err != nil || a < 0 {
				return c, false
			}
			sv.addr = a
			c.servers = append(c.servers, sv)
		}
	}
	switch p[1] {
	case "-", "parse", "setup", "make", "first", "startup":
		c.fail = p[1]
	default:
		return c, false
	}
	for _, ch := range p[2] {
		if ch != 'r' && ch != 's' && ch != 'w' {
			return c, false
		}
	}
	c.flags = p[2]
	return c, true
}

func c16Input(gen int, c c16Cfg) casket.Input {
	var b strings.Builder
	b.WriteString("site {\n")
	fmt.Fprintf(&b, " gen %d", gen)
	if c.fail == "first" || c.fail == "startup" {
		b.WriteString(" " + c.fail)
	}
	for _, ch := range c.flags {
		fmt.Fprintf(&b, " %c", ch)
	}
	b.WriteString("\n")
	for _, s := range c.servers {
		f := "ok"
		if s.fail {
			f = "fail"
		}
		if s.stopErr {
			f += "+stoperr"
		}
		fmt.Fprintf(&b, " srv %c a%d %s\n", s.kind, s.addr, f)
	}
	switch c.fail {
	case "parse":
		b.WriteString(" nosuchdirective\n")
	case "setup":
		b.WriteString(" boom\n")
	case "make":
		b.WriteString(" failmake\n")
	}
	b.WriteString("}\n")
	return casket.CasketfileInput{Contents: []byte(b.String()), Filepath: "veriffake", ServerTypeName: c16Type}
}

// ---- evaluation ----

type c16Lineage struct {
	handle *casket.Instance
	waiter chan struct{} // outstanding Wait() goroutine, nil if none
}

func c16Eval(f []string) (string, []string) {
	casket.VerifC16Reset()
	c16rec.mu.Lock()
	c16rec.events = nil
	c16rec.servers = nil
	c16rec.mu.Unlock()

	var lineages []*c16Lineage
	lineageOfInst := map[*casket.Instance]int{} // instance -> index into lineages
	lineageOfGen := map[int]int{}
	tags := map[string]bool{}
	var segs []string
	bad := false

	settle := func(inst *casket.Instance) {
		// every server of a successfully started instance gets its Serve call; wait for those goroutines
		for _, s := range snapshotServers() {
			if lineageOfGenHas(lineageOfGen, s.gen) {
				select {
				case <-s.served:
				case <-time.After(c16Patience()):
					c16Expired++
					c16rec.log("noserve", s.gen, s.idx)
				}
			}
		}
		_ = inst
	}

	observeWait := func() string {
		if len(lineages) == 0 {
			return "-"
		}
		var b strings.Builder
		for li, l := range lineages {
			if l.waiter == nil {
				ch := make(chan struct{})
				l.waiter = ch
				h := l.handle
				go func() { h.Wait(); close(ch) }()
			}
			// harness-side knowledge used only to choose how long to look: are all fake servers of this lineage halted?
			allHalted := true
			for _, s := range snapshotServers() {
				if lg, ok := lineageOfGen[s.gen]; ok && lg == li {
					s.mu.Lock()
					if s.servedFlag && !s.stopped {
						allHalted = false
					}
					s.mu.Unlock()
				}
			}
			returned := false
			if allHalted {
				select {
				case <-l.waiter:
					returned = true
				case <-time.After(c16Patience()):
					c16Expired++
				}
			} else {
				for i := 0; i < 3; i++ {
					runtime.Gosched()
				}
				select {
				case <-l.waiter:
					returned = true
				default:
				}
			}
			if returned {
				l.waiter = nil
				b.WriteByte('1')
			} else {
				b.WriteByte('0')
			}
		}
		return b.String()
	}

	doRestart := func(gen int, cfg c16Cfg) string {
		insts := casket.Instances()
		if len(insts) == 0 {
			tags["restart-noinst"] = true
			return "noinst"
		}
		res := "ok"
		old := insts[0]
		ni, err := old.Restart(c16Input(gen, cfg))
		switch {
		case err != nil:
			res = "err"
			// the quirk of a late failure: a new instance may be running although an error came back
			for _, x := range casket.Instances() {
				if _, known := lineageOfInst[x]; !known {
					lineageOfInst[x] = lineageOfInst[old]
					lineageOfGen[gen] = lineageOfInst[old]
					settle(x)
				}
			}
		case ni == nil:
			res = "nil"
		default:
			lineageOfInst[ni] = lineageOfInst[old]
			lineageOfGen[gen] = lineageOfInst[old]
			settle(ni)
		}
		tags["restart-"+res] = true
		return res
	}
	emit := func(res string, evs []c16Event) {
		c := c16Canon(evs)
		if len(c) > 200 {
			c = append(c[:200], "truncated")
		}
		segs = append(segs, res+";"+strings.Join(c, ",")+";"+observeWait())
	}

	gen := 0
	for _, opS := range f {
		gen++
		m := c16rec.mark()
		res := "ok"
		if strings.HasPrefix(opS, "GR:") {
			cfg, ok := c16ParseCfg(opS[3:])
			if !ok {
				bad = true
				break
			}
			bits0 := observeWait()
			gidCh := make(chan int64, 1)
			sigDone := make(chan struct{})
			go func() {
				gidCh <- c16Gid()
				casket.VerifC16ExecuteShutdownCallbacks("SIGTERM")
				close(sigDone)
			}()
			gG := <-gidCh
			// wait until the pass runs its first callback (or ends without running any)
			deadline := time.Now().Add(c16Patience())
		passStarted:
			for time.Now().Before(deadline) {
				select {
				case <-sigDone:
					break passStarted
				default:
				}
				for _, e := range c16rec.since(m) {
					if e.gid == gG {
						break passStarted
					}
				}
				time.Sleep(100 * time.Microsecond)
			}
			gen++
			rres := doRestart(gen, cfg)
			select {
			case <-sigDone:
			case <-time.After(c16Patience()):
				c16Expired++
			}
			var ge, re []c16Event
			for _, e := range c16rec.since(m) {
				if e.gid == gG {
					ge = append(ge, e)
				} else {
					re = append(re, e)
				}
			}
			c := c16Canon(ge)
			segs = append(segs, "ok;"+strings.Join(c, ",")+";"+bits0)
			emit(rres, re)
			tags["signal-during-reload"] = true
			continue
		}
		switch {
		case strings.HasPrefix(opS, "S:") || strings.HasPrefix(opS, "R:"):
			cfg, ok := c16ParseCfg(opS[2:])
			if !ok {
				bad = true
				break
			}
			if cfg.fail != "-" {
				tags["fail-"+cfg.fail] = true
			}
			for _, s := range cfg.servers {
				if s.fail {
					tags["fail-listen"] = true
				}
			}
			if opS[0] == 'S' {
				inst, err := casket.Start(c16Input(gen, cfg))
				lineages = append(lineages, &c16Lineage{handle: inst})
				if err != nil {
					res = "err"
				} else {
					lineageOfInst[inst] = len(lineages) - 1
					lineageOfGen[gen] = len(lineages) - 1
					settle(inst)
				}
				tags["start-"+res] = true
			} else {
				res = doRestart(gen, cfg)
			}
		case opS == "X":
			if c16GuardedStop() {
				res = "hang"
			}
			tags["stop"] = true
		case strings.HasPrefix(opS, "G"):
			n, err := strconv.Atoi(opS[1:])
			if err != nil || n < 1 || n > 64 {
				bad = true
				break
			}
			var wg sync.WaitGroup
			for j := 0; j < n; j++ {
				wg.Add(1)
				go func() { defer wg.Done(); casket.VerifC16ExecuteShutdownCallbacks("SIGTERM") }()
			}
			wg.Wait()
			tags["signal"] = true
			if n > 1 {
				tags["signal-concurrent"] = true
			}
		default:
			bad = true
		}
		if bad {
			break
		}
		emit(res, c16rec.since(m))
	}

	// stray events (goroutines that should not exist), then clean up for the next case
	m := c16rec.mark()
	time.Sleep(200 * time.Microsecond)
	if late := c16rec.since(m); len(late) > 0 {
		segs = append(segs, "late;"+strings.Join(c16Canon(late), ",")+";-")
	}
	c16GuardedStop()
	for _, s := range snapshotServers() {
		s.halt()
	}
	for _, l := range lineages {
		if l.waiter != nil {
			select {
			case <-l.waiter:
			case <-time.After(c16Patience()):
			}
		}
	}
	casket.VerifC16Reset()
	if bad {
		return "bad-case", nil
	}
	tl := []string{fmt.Sprintf("len=%d", len(f))}
	for t := range tags {
		tl = append(tl, t)
	}
	sort.Strings(tl)
	return strings.Join(segs, "|"), tl
}

func lineageOfGenHas(m map[int]int, g int) bool { _, ok := m[g]; return ok }

func snapshotServers() []*c16Server {
	c16rec.mu.Lock()
	defer c16rec.mu.Unlock()
	return append([]*c16Server(nil), c16rec.servers...)
}

// ---- generator ----

func c16Gen(g *hx.Gen) {
	// alphabet of configurations for the exhaustive part
	cfgs := []string{
		"f1/-/", "f1,n2/-/", "f1,p2/-/", "/-/",
		"f1/parse/", "f1/setup/", "f1/make/", "f1/first/", "f1/startup/", "f1,f2!/-/", "f1!/-/",
		"f1/-/r", "n1,f2/-/", "f1/-/s", "f1~,f2/-/",
	}
	var alpha []string
	for _, c := range cfgs {
		alpha = append(alpha, "S:"+c, "R:"+c)
	}
	alpha = append(alpha, "X", "G1", "G3")
	var rec func(alpha []string, prefix []string, n int)
	rec = func(alpha []string, prefix []string, n int) {
		if len(prefix) > 0 {
			g.Case(prefix...)
		}
		if n == 0 {
			return
		}
		for _, a := range alpha {
			// a history that does not begin with a start has nothing to act on: keep only one representative each
			if len(prefix) == 0 && a[0] != 'S' && a != "R:f1/-/" && a != "X" && a != "G1" {
				continue
			}
			rec(alpha, append(append([]string(nil), prefix...), a), n-1)
		}
	}
	rec(alpha, nil, 3)
	if g.Thorough() {
		// length 4 over the core of the alphabet
		var core []string
		for _, c := range []string{"f1/-/", "f1,n2/-/", "f1,p2/-/", "f1/setup/", "f1/startup/", "f1,f2!/-/", "f1/-/r"} {
			core = append(core, "S:"+c, "R:"+c)
		}
		core = append(core, "X", "G1", "G3")
		var rec4 func(prefix []string, n int)
		rec4 = func(prefix []string, n int) {
			if n == 0 {
				g.Case(prefix...)
				return
			}
			for _, a := range core {
				if len(prefix) == 0 && a[0] != 'S' {
					continue
				}
				rec4(append(append([]string(nil), prefix...), a), n-1)
			}
		}
		rec4(nil, 4)
	}

	// a reload that tries to change the instance list WHILE the shutdown pass runs (two or more live instances; the first one's
	// shutdown callback is slow so that the reload arrives in the middle of the pass; each costs about 0.3 s)
	for _, c := range [][]string{
		{"S:f1/-/w", "S:f2/-/", "GR:f1/-/"},
		{"S:f1/-/w", "S:f2/-/", "GR:f1/-/", "X"},
		{"S:f1/-/w", "S:f2,n3/-/", "S:f4/-/", "GR:f1,f5/-/", "G1"},
		{"S:f1/-/w", "S:f2/-/s", "GR:/-/"},
		{"S:f1/-/w", "S:p2/-/", "GR:f1/setup/", "R:f1/-/"},
		{"S:f1/-/w", "R:f1/-/w", "S:f2/-/", "GR:f1,f3/-/"},
		{"S:f1/-/w", "S:f2/-/", "S:f3/-/", "GR:f1/startup/"},
		{"S:f1/-/", "GR:f1/-/"}, {"GR:f1/-/"}, {"S:f1/-/w", "S:f2/-/", "G1", "GR:f1/-/"},
	} {
		g.Case(c...)
	}

	// seeded structured random: longer histories, more servers, all flags
	N := 1500
	if g.Thorough() {
		N = 20000
	}
	for it := 0; it < N; it++ {
		L := 2 + g.Rng.Intn(7)
		var ops []string
		signalled := false
		for i := 0; i < L; i++ {
			r := g.Rng.Intn(20)
			switch {
			case i == 0 && r < 17, r < 3:
				ops = append(ops, "S:"+c16RandCfg(g.Rng).String())
			case r < 14:
				ops = append(ops, "R:"+c16RandCfg(g.Rng).String())
			case r < 16:
				ops = append(ops, "X")
			default:
				ops = append(ops, fmt.Sprintf("G%d", 1+g.Rng.Intn(4)))
				signalled = true
			}
			// after a shutdown signal the process is on its way out: mostly only further signals and Stop follow
			if signalled && g.Rng.Chance(3, 4) {
				for j := g.Rng.Intn(3); j > 0; j-- {
					if g.Rng.Bool() {
						ops = append(ops, fmt.Sprintf("G%d", 1+g.Rng.Intn(4)))
					} else {
						ops = append(ops, "X")
					}
				}
				break
			}
		}
		g.Case(ops...)
	}
	// malformed cases: both sides must answer bad-case
	for _, m := range [][]string{{"S:"}, {"S:f1/-"}, {"Q"}, {"G0"}, {"S:z1/-/"}, {"S:f1/nope/"}, {"R:f1/-/x"}, {"S:f/-/"}, {"G"}, {"S:f1/-/", "G99"}} {
		g.Case(m...)
	}
}

func c16RandCfg(r *hx.Rng) c16Cfg {
	var c c16Cfg
	n := r.Intn(4)
	for i := 0; i < n; i++ {
		s := c16Srv{kind: "ffnp"[r.Intn(4)], addr: 1 + r.Intn(3)}
		if r.Chance(1, 10) {
			s.fail = true
		}
		if s.kind != 'p' && r.Chance(1, 8) {
			s.stopErr = true
		}
		c.servers = append(c.servers, s)
	}
	c.fail = "-"
	if r.Chance(1, 4) {
		c.fail = hx.Pick(r, []string{"parse", "setup", "make", "first", "startup"})
	}
	if r.Chance(1, 8) {
		c.flags += "r"
	}
	if r.Chance(1, 8) {
		c.flags += "s"
	}
	return c
}
