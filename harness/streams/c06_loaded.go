//go:build c06

package streams

import (
	"crypto/ecdsa"
	"crypto/elliptic"
	"crypto/rand"
	"crypto/tls"
	"crypto/x509"
	"crypto/x509/pkix"
	"encoding/pem"
	"fmt"
	"math/big"
	"net/http"
	"net/http/httptest"
	"net/url"
	"os"
	"path/filepath"
	"sort"
	"strconv"
	"strings"
	"time"

	"github.com/klauspost/cpuid"
	"github.com/tmpim/casket"
	"github.com/tmpim/casket/caskethttp/httpserver"
	"github.com/tmpim/casket/caskettls"

	"verifharness/hx"
)

// c06.loaded  aesni  sites  cfgs  how  snihex  hosthex  pathhex
//
//	c06.cross with the listener built from a CASKETFILE by the real loader (casketfile parser,
//	InspectServerBlocks, the tls directive's setupTLS, MakeServers/NewServer) instead of from Go
//	objects.  The case states what the configuration MEANS and, separately, how it is WRITTEN:
//
//	sites  c01 format, one entry per site in declaration order:
//	         key      = the site address exactly as written in the Casketfile (letter case, scheme,
//	                    port spelled as number / service name / implied by the scheme / left out, IP literal
//	                    spelled in a non-canonical form)
//	         addrHost = the host pattern this address means (lower case, IP literal canonical) — what
//	                    the loader has to put into Addr.Host and caskettls.Config.Hostname
//	cfgs   c06.select format (hostname field unused): the TLS settings the site's tls block means
//	how    ';' list, one entry <order>|<flags> per site: how the tls block is written
//	         order  rotation / reversal of the block's lines
//	         flags  1 = no alpn line (the site means h2,http/1.1 — the http server's default)
//	                2 = protocol names in upper case, cipher and curve names in lower case
//	                4 = this site shares the server block of the previous site (`k1, k2 { … }`)
//	                8 = the block is split over two tls directives of the site
//	sni / host / path as in c06.cross
//
//	out = <err:load | err:n | plain | nil | any | cfg TAB idx TAB min TAB max TAB ciphers TAB curves TAB prefer TAB clientAuth TAB alpn>
//	      TAB || TAB <site TAB idx | forbidden | notfound TAB status>
//
// The model and the judge read sites.addrHost / cfgs only (the MEANING); `how` and the spelling of the
// keys reach nothing but this evaluator and the routing model's own lower-casing.  Every spelling
// of one meaning must therefore produce the same answer.

var c06SrvCert, c06SrvKey string

func c06LoadedSetup() error {
	if err := c06SetupSetup(); err != nil {
		return err
	}
	key, err := ecdsa.GenerateKey(elliptic.P256(), rand.Reader)
	if err != nil {
		return err
	}
	tpl := &x509.Certificate{SerialNumber: big.NewInt(77), Subject: pkix.Name{CommonName: "verif-server"},
		NotBefore: time.Now().Add(-time.Hour), NotAfter: time.Now().Add(24 * time.Hour),
		KeyUsage: x509.KeyUsageDigitalSignature, ExtKeyUsage: []x509.ExtKeyUsage{x509.ExtKeyUsageServerAuth},
		DNSNames: []string{"verif.invalid"}}
	der, err := x509.CreateCertificate(rand.Reader, tpl, tpl, &key.PublicKey, key)
	if err != nil {
		return err
	}
	kder, err := x509.MarshalECPrivateKey(key)
	if err != nil {
		return err
	}
	c06SrvCert, c06SrvKey = filepath.Join(c06Dir, "server.pem"), filepath.Join(c06Dir, "server.key")
	if err := os.WriteFile(c06SrvCert, pem.EncodeToMemory(&pem.Block{Type: "CERTIFICATE", Bytes: der}), 0o600); err != nil {
		return err
	}
	return os.WriteFile(c06SrvKey, pem.EncodeToMemory(&pem.Block{Type: "EC PRIVATE KEY", Bytes: kder}), 0o600)
}

type c06How struct {
	order int
	flags int
}

func c06ParseHow(s string) []c06How {
	if s == "" {
		return nil
	}
	var out []c06How
	for _, e := range strings.Split(s, ";") {
		p := strings.Split(e, "|")
		var h c06How
		h.order, _ = strconv.Atoi(p[0])
		if len(p) > 1 {
			h.flags, _ = strconv.Atoi(p[1])
		}
		out = append(out, h)
	}
	return out
}

func c06EncHow(hs []c06How) string {
	p := make([]string, len(hs))
	for i, h := range hs {
		p[i] = fmt.Sprintf("%d|%d", h.order, h.flags)
	}
	return strings.Join(p, ";")
}

var c06CurveByID = map[int]string{29: "X25519", 23: "P256", 24: "P384", 25: "P521"}

func c06NameOf[T comparable](m map[string]T, v T) (string, bool) {
	var names []string
	for k, x := range m {
		if x == v {
			names = append(names, k)
		}
	}
	if len(names) == 0 {
		return "", false
	}
	sort.Strings(names)
	return names[0], true
}

var c06HTTPALPN = []string{"h2", "http/1.1"}

// c06BlockLines writes the lines of a tls block that mean the settings c; ok=false: not expressible
func c06BlockLines(c c06Cfg, h c06How) ([]string, bool) {
	var ls []string
	nm := func(s string, upper bool) string {
		if h.flags&2 == 0 {
			return s
		}
		if upper {
			return strings.ToUpper(s)
		}
		return strings.ToLower(s)
	}
	if c.min != 0 || c.max != 0 {
		a, ok1 := c06NameOf(caskettls.SupportedProtocols, uint16(c.min))
		b, ok2 := c06NameOf(caskettls.SupportedProtocols, uint16(c.max))
		if !ok1 || !ok2 || c.min > c.max {
			return nil, false
		}
		if c.min == c.max && h.order%2 == 0 {
			ls = append(ls, "protocols "+nm(a, true))
		} else {
			ls = append(ls, "protocols "+nm(a, true)+" "+nm(b, true))
		}
	}
	if len(c.ciphers) > 0 {
		l := "ciphers"
		for _, x := range c.ciphers {
			n, ok := c06NameOf(caskettls.SupportedCiphersMap, uint16(x))
			if !ok {
				return nil, false
			}
			l += " " + nm(n, false)
		}
		ls = append(ls, l)
	}
	if len(c.curves) > 0 {
		l := "curves"
		for _, x := range c.curves {
			n, ok := c06CurveByID[x]
			if !ok {
				return nil, false
			}
			l += " " + nm(n, false)
		}
		ls = append(ls, l)
	}
	if c.clientAuth != 0 || len(c.clientCerts) > 0 {
		l := "clients"
		switch c.clientAuth {
		case 1:
			l += " request"
		case 2:
			l += " require"
		case 3:
			l += " verify_if_given"
		case 4:
		default:
			return nil, false
		}
		if c.clientAuth >= 3 && len(c.clientCerts) == 0 {
			return nil, false
		}
		for _, x := range c.clientCerts {
			l += " " + c06CAFile(x)
		}
		ls = append(ls, l)
	}
	switch {
	case h.flags&1 != 0:
		if strings.Join(c.alpn, ",") != strings.Join(c06HTTPALPN, ",") {
			return nil, false
		}
	case len(c.alpn) == 0:
		return nil, false // no alpn line MEANS h2,http/1.1: an empty list cannot be written
	default:
		ls = append(ls, "alpn "+strings.Join(c.alpn, " "))
	}
	if c.disableSNI {
		ls = append(ls, "insecure_disable_sni_matching")
	}
	if n := len(ls); n > 1 {
		r := (h.order / 2) % n
		ls = append(append([]string{}, ls[r:]...), ls[:r]...)
		if (h.order/2/n)%2 == 1 {
			for i, j := 0, n-1; i < j; i, j = i+1, j-1 {
				ls[i], ls[j] = ls[j], ls[i]
			}
		}
	}
	return ls, true
}

func c06CfgSame(a, b c06Cfg) bool { a.host, b.host = "", ""; return a.enc() == b.enc() }

// c06Casketfile writes the Casketfile of a case; "" = the case cannot be written
func c06Casketfile(sites []c01Site, cfgs []c06Cfg, hows []c06How) string {
	var b strings.Builder
	for i := 0; i < len(sites); {
		keys := []string{sites[i].key}
		j := i + 1
		for j < len(sites) && hows[j].flags&4 != 0 {
			if !c06CfgSame(cfgs[i], cfgs[j]) {
				return ""
			}
			keys = append(keys, sites[j].key)
			j++
		}
		c, h := cfgs[i], hows[i]
		b.WriteString(strings.Join(keys, ", ") + " {\n")
		if !c.enabled {
			b.WriteString("  tls off\n")
		} else {
			ls, ok := c06BlockLines(c, h)
			if !ok {
				return ""
			}
			parts := [][]string{ls}
			if h.flags&8 != 0 && len(ls) > 1 {
				parts = [][]string{ls[:len(ls)/2], ls[len(ls)/2:]}
			}
			for _, part := range parts {
				b.WriteString("  tls " + c06SrvCert + " " + c06SrvKey)
				if len(part) > 0 {
					b.WriteString(" {\n")
					for _, l := range part {
						b.WriteString("    " + l + "\n")
					}
					b.WriteString("  }")
				}
				b.WriteString("\n")
			}
		}
		b.WriteString("}\n")
		i = j
	}
	return b.String()
}

// c06TrieKey: how the vhost trie files a site address (host lower-cased without port and brackets, path)
func c06TrieKey(key string) string {
	if i := strings.Index(key, "://"); i >= 0 {
		key = key[i+3:]
	}
	p := "/"
	if i := strings.Index(key, "/"); i >= 0 {
		p = key[i:]
	}
	return c01AddrHost(key) + " " + p
}

func c06LoadedEval(f []string) (string, []string) {
	if len(f) != 7 {
		return "bad-case", nil
	}
	sites := c01ParseSites(f[1])
	cfgs := c06ParseCfgs(f[2])
	hows := c06ParseHow(f[3])
	if len(sites) != len(cfgs) || len(sites) != len(hows) || len(sites) == 0 {
		return "bad-case", nil
	}
	if !c06AesniOK(f[0], cfgs) {
		return "bad-case:aesni field does not describe this CPU", nil
	}
	seen := map[string]bool{}
	for _, s := range sites {
		k := c06TrieKey(s.key)
		if seen[k] {
			return "bad-case:duplicate-site", nil
		}
		seen[k] = true
	}
	text := c06Casketfile(sites, cfgs, hows)
	if text == "" {
		return "bad-case:not-writable", nil
	}
	sni, host, path := hx.UnHS(f[4]), hx.UnHS(f[5]), hx.UnHS(f[6])
	tags := []string{fmt.Sprintf("sites=%d", len(sites))}
	spelled := false
	for i, s := range sites {
		if c01AddrHost(s.key) != s.addrHost || s.key != strings.ToLower(s.key) || strings.Contains(s.key, "://") || strings.HasSuffix(strings.SplitN(s.key, "/", 2)[0], ":https") {
			spelled = true
		}
		if s.key != strings.ToLower(s.key) {
			tags = append(tags, "host-written-with-capitals")
		}
		if hows[i].flags&4 != 0 {
			tags = append(tags, "shared-server-block")
		}
		if hows[i].flags&8 != 0 {
			tags = append(tags, "two-tls-directives")
		}
		if hows[i].flags&1 != 0 {
			tags = append(tags, "alpn-by-default")
		}
	}
	if !spelled {
		tags = append(tags, "canonical-spelling")
	}
	inst, ctx, err := casket.VerifC15Load(casket.CasketfileInput{Filepath: "Testfile", Contents: []byte(text), ServerTypeName: "http"})
	defer inst.ShutdownCallbacks()
	if err != nil {
		if os.Getenv("VERIF_TRACE") != "" {
			fmt.Fprintf(os.Stderr, "load: %v\n%s", err, text)
		}
		return "err:load\t||\tnotfound\t0", append(tags, "trivial-load-error")
	}
	scs := httpserver.VerifC15Configs(ctx)
	if len(scs) < len(sites) {
		return fmt.Sprintf("config-count:%d", len(scs)), tags
	}
	if len(scs) > len(sites) {
		// a directive made configs of its own (GetConfig did not find the site's): they join the listener as casket
		// would start it, but only the first len(sites) configs are the declared sites
		tags = append(tags, "extra-configs")
	}
	var ran []int
	for i, sc := range scs {
		idx := i
		sc.AddMiddleware(func(next httpserver.Handler) httpserver.Handler {
			return httpserver.HandlerFunc(func(w http.ResponseWriter, r *http.Request) (int, error) {
				ran = append(ran, idx)
				w.WriteHeader(200)
				return 0, nil
			})
		})
	}
	servers, err := httpserver.VerifC15MakeServers(ctx)
	if err != nil {
		cls := "1"
		switch {
		case strings.Contains(err.Error(), "cannot multiplex"):
			cls = "0"
		case strings.Contains(err.Error(), "incompatible TLS configurations"):
			cls = "2"
		}
		return "err:" + cls + "\t||\tnotfound\t0", append(tags, "trivial-rejected")
	}
	if len(servers) != 1 {
		return fmt.Sprintf("bad-case:listeners=%d", len(servers)), tags
	}
	srv, ok := servers[0].(*httpserver.Server)
	if !ok {
		return "bad-case:server-type", tags
	}
	sel := "plain"
	req := &http.Request{Method: "GET", Host: host, URL: &url.URL{Path: path}, Proto: "HTTP/1.1", ProtoMajor: 1, ProtoMinor: 1,
		Header: http.Header{}, RemoteAddr: "192.0.2.1:4000", RequestURI: path}
	if tc := srv.Server.TLSConfig; tc != nil {
		req.TLS = &tls.ConnectionState{ServerName: sni}
		hello := &tls.ClientHelloInfo{ServerName: sni}
		idx := -3
		for try := 0; try < 400; try++ {
			got, err := tc.GetConfigForClient(hello)
			if err != nil {
				return "getconfig-error", tags
			}
			cur := -1
			if got != nil {
				cur = -2
				for i, sc := range scs[:len(sites)] {
					if caskettls.VerifTLSConfig(sc.TLS) == got {
						cur = i
					}
				}
			}
			if try > 0 && cur != idx {
				idx = -4
				break
			}
			idx = cur
		}
		switch {
		case idx == -4:
			sel = "any"
			tags = append(tags, "random-failover")
		case idx == -1:
			sel = "nil"
		case idx < 0:
			sel = "foreign"
		default:
			sel = "cfg\t" + strconv.Itoa(idx) + "\t" + c06ShowTLS(caskettls.VerifTLSConfig(scs[idx].TLS))
			h := sites[idx].addrHost
			switch {
			case h == strings.ToLower(strings.TrimSpace(sni)) && h != "":
				tags = append(tags, "by-exact-name")
			case strings.Contains(h, "*"):
				tags = append(tags, "by-wildcard")
			default:
				tags = append(tags, "by-catchall-or-failover")
			}
		}
	} else {
		tags = append(tags, "trivial-plaintext")
	}
	if c01AddrHost(host) == c01AddrHost(sni) {
		tags = append(tags, "sni=host")
	} else {
		tags = append(tags, "sni!=host")
	}
	rec := httptest.NewRecorder()
	srv.ServeHTTP(rec, req)
	served := fmt.Sprintf("unexpected:ran=%d,status=%d", len(ran), rec.Code)
	switch {
	case len(ran) == 1 && rec.Code == 200:
		served = "site\t" + strconv.Itoa(ran[0])
		if ran[0] < len(cfgs) && cfgs[ran[0]].clientAuth != 0 {
			tags = append(tags, "served-by-clientauth-site")
		}
	case len(ran) == 0 && rec.Code == 403:
		served = "forbidden"
	case len(ran) == 0:
		served = "notfound\t" + strconv.Itoa(rec.Code)
		tags = append(tags, "notfound")
	}
	return sel + "\t||\t" + served, tags
}

// ---- generator ----

// c06Spell: the spellings of one site address that mean (host pattern, the listener's port, path).
// port443 = true: the listener is :443 (port written as number, as service name or implied by the
// scheme); false: the listener is the default port 2015 (port written or left out).
func c06Spellings(host string, port443 bool, path string) []string {
	var hs []string // spellings of the host part
	add := func(s ...string) { hs = append(hs, s...) }
	br := host
	if strings.Contains(host, ":") {
		br = "[" + host + "]"
	}
	add(br)
	if up := strings.ToUpper(br); up != br {
		add(up)
		// first letter only, and every second letter
		b := []byte(br)
		for i := range b {
			if b[i] >= 'a' && b[i] <= 'z' {
				b[i] -= 32
				break
			}
		}
		add(string(b))
		b = []byte(br)
		for i := range b {
			if i%2 == 1 && b[i] >= 'a' && b[i] <= 'z' {
				b[i] -= 32
			}
		}
		if string(b) != hs[len(hs)-1] && string(b) != br {
			add(string(b))
		}
	}
	switch host {
	case "::":
		add("[::0]", "[0:0::]", "[0:0:0:0:0:0:0:0]")
	case "::1":
		add("[0::1]", "[0:0:0:0:0:0:0:1]")
	case "0.0.0.0":
	}
	var out []string
	for _, h := range hs {
		if port443 {
			out = append(out, h+":443"+path, "https://"+h+path, "https://"+h+":443"+path, h+":https"+path, "HTTPS://"+h+":443"+path)
		} else {
			out = append(out, h+":2015"+path)
			if h != "" {
				out = append(out, h+path)
			}
		}
	}
	return out
}

func c06LoadedGen(g *hx.Gen) {
	aes := b01(cpuid.CPU.AesNi())
	alpn := c06HTTPALPN
	policies := []c06Cfg{
		{enabled: true, alpn: alpn},
		{enabled: true, alpn: alpn, clientAuth: 4, clientCerts: []int{0}},
		{enabled: true, alpn: alpn, clientAuth: 2},
		{enabled: true, alpn: alpn, clientAuth: 4, clientCerts: []int{0}, disableSNI: true},
		{enabled: true, alpn: alpn, min: 0x0304, max: 0x0304, clientAuth: 4, clientCerts: []int{0, 1}},
		{enabled: true, alpn: alpn, min: 0x0301, max: 0x0303, ciphers: []int{0xc02b, 0xc02f, 0xc02b}},
		{enabled: true, alpn: []string{"h2"}, curves: []int{23, 29}, clientAuth: 1},
		{enabled: true, alpn: alpn, min: 0x0303, max: 0x0303, ciphers: []int{0xc02f}, curves: []int{29}, clientAuth: 3, clientCerts: []int{1}},
	}
	type site struct {
		host, path string
		cfg        c06Cfg
	}
	// emit one case: sp[i] selects the spelling of site i among c06Spellings (modulo their number)
	emit := func(ss []site, port443 bool, sp []int, hows []c06How, sni, host, path string) {
		sites := make([]c01Site, len(ss))
		cs := make([]c06Cfg, len(ss))
		for i, s := range ss {
			all := c06Spellings(s.host, port443, s.path)
			sites[i] = c01Site{all[sp[i]%len(all)], false, s.host}
			cs[i] = s.cfg
		}
		g.Case(aes, c01EncSites(sites), c06EncCfgs(cs), c06EncHow(hows), hx.HS(sni), hx.HS(host), hx.HS(path))
	}
	plain := func(n int) []c06How { return make([]c06How, n) }

	// 1. the exact-name site next to a wildcard / catch-all / unrelated site, both declaration orders, EVERY
	//    spelling of the exact-name site's address (the other site canonical, then every spelling of the other
	//    site with the exact one canonical), client certificates demanded by either; SNI = Host = each name
	others := []string{"*.a.com", "", "0.0.0.0", "::", "c.org", "*.*.com"}
	names := []string{"b.a.com", "B.A.com", "x.a.com", "c.org", "zzz"}
	for _, p443 := range []bool{true, false} {
		nsp := len(c06Spellings("b.a.com", p443, ""))
		for oi, o := range others {
			nso := len(c06Spellings(o, p443, ""))
			for order := 0; order < 2; order++ {
				for pp := 0; pp < 4; pp++ {
					ex := site{"b.a.com", "", policies[[]int{1, 0, 4, 2}[pp]]}
					ot := site{o, "", policies[[]int{0, 1, 0, 5}[pp]]}
					ss := []site{ex, ot}
					if order == 1 {
						ss = []site{ot, ex}
					}
					for k := 0; k < nsp+nso; k++ {
						se, so := 0, 0
						if k < nsp {
							se = k
						} else {
							so = k - nsp
							se = k % nsp
						}
						sp := []int{se, so}
						if order == 1 {
							sp = []int{so, se}
						}
						for ni, n := range names {
							if !g.Thorough() && (k+ni+pp+oi)%2 != 0 && ni > 0 {
								continue
							}
							emit(ss, p443, sp, plain(2), n, n, "/")
						}
					}
				}
			}
		}
	}
	// 2. the c06.cross pairs (general + specific pattern), SNI and Host apart, spellings drawn per case
	pairs := [][2]string{
		{"*.a.com", "b.a.com"}, {"*.*.com", "b.a.com"}, {"*.*.com", "*.a.com"}, {"", "b.a.com"}, {"", "*.a.com"},
		{"0.0.0.0", "b.a.com"}, {"::", "*.a.com"}, {"*.a.com", "a.com"}, {"b.a.com", "x.a.com"}, {"b.a.com", "b.a.com."},
	}
	snis := []string{"b.a.com", "x.a.com", "B.A.com", "a.com", "c.org", "", "b.a.com."}
	hosts := []string{"b.a.com", "x.a.com", "X.A.COM", "a.com", "b.a.com:443", "b.a.com."}
	for _, pr := range pairs {
		for order := 0; order < 2; order++ {
			for p1 := 0; p1 < 4; p1++ {
				for p2 := 0; p2 < 4; p2++ {
					for si, s := range snis {
						for hi, h := range hosts {
							if !g.Thorough() && (p1+p2+si+hi+order)%4 != 0 {
								continue
							}
							ss := []site{{pr[0], "", policies[p1]}, {pr[1], "", policies[p2]}}
							if order == 1 {
								ss[0], ss[1] = ss[1], ss[0]
							}
							emit(ss, g.Rng.Chance(2, 3), []int{g.Rng.Intn(64), g.Rng.Intn(64)},
								[]c06How{{g.Rng.Intn(24), g.Rng.Intn(4)}, {g.Rng.Intn(24), g.Rng.Intn(4)}}, s, h, "/")
						}
					}
				}
			}
		}
	}
	// 3. one host name split by path: the two sites share the SNI key, their blocks must mean compatible
	//    settings however each is written (all ordered pairs of the 8 policies; equal ones also as one server
	//    block with two addresses)
	for p1 := range policies {
		for p2 := range policies {
			for v := 0; v < 3; v++ {
				ss := []site{{"a.com", "/admin", policies[p1]}, {"a.com", "", policies[p2]}, {"*.com", "", policies[0]}}
				hows := []c06How{{g.Rng.Intn(24), g.Rng.Intn(4) | 8*(v%2)}, {g.Rng.Intn(24), g.Rng.Intn(4)}, {0, 1}}
				if p1 == p2 && v == 2 {
					hows[1] = c06How{0, 4}
				}
				for i := range ss {
					if strings.Join(ss[i].cfg.alpn, ",") != strings.Join(alpn, ",") {
						hows[i].flags &^= 1
					}
				}
				n := hx.Pick(g.Rng, []string{"a.com", "A.com", "x.com"})
				emit(ss, v != 1, []int{g.Rng.Intn(64), g.Rng.Intn(64), g.Rng.Intn(64)}, hows, n, n, hx.Pick(g.Rng, []string{"/", "/admin/x"}))
			}
		}
	}
	// 4. seeded random Casketfiles: 2..5 sites over distinct (host pattern, path), random spelling of every
	//    address and block, some sites sharing a server block, rarely a `tls off` site or a missing CA file
	N := 4000
	if g.Thorough() {
		N = 60000
	}
	hostPats := []string{"a.com", "*.a.com", "b.a.com", "x.a.com", "*.*.com", "", "0.0.0.0", "::", "c.org", "*.org", "a.com.", "127.0.0.1", "::1"}
	rnames := []string{"a.com", "b.a.com", "x.a.com", "y.a.com", "x.y.com", "c.org", "q.org", "zzz", "", "A.COM", "B.a.Com", "a.com.", "127.0.0.1"}
	for it := 0; it < N; it++ {
		n := 2 + g.Rng.Intn(4)
		var ss []site
		used := map[string]bool{}
		base := policies[g.Rng.Intn(len(policies))]
		for len(ss) < n {
			s := site{host: hx.Pick(g.Rng, hostPats), path: hx.Pick(g.Rng, []string{"", "", "/x"})}
			if used[s.host+" "+s.path] {
				continue
			}
			used[s.host+" "+s.path] = true
			s.cfg = base
			if g.Rng.Chance(1, 2) {
				s.cfg = policies[g.Rng.Intn(len(policies))]
			}
			if g.Rng.Chance(1, 50) {
				s.cfg.enabled = false
			}
			if g.Rng.Chance(1, 60) && s.cfg.clientAuth != 0 {
				s.cfg.clientCerts = append(append([]int{}, s.cfg.clientCerts...), 5)
			}
			ss = append(ss, s)
		}
		sp := make([]int, n)
		hows := make([]c06How, n)
		for i := range ss {
			sp[i] = g.Rng.Intn(64)
			hows[i] = c06How{g.Rng.Intn(24), g.Rng.Intn(4)}
			if g.Rng.Chance(1, 4) {
				hows[i].flags |= 8
			}
			if strings.Join(ss[i].cfg.alpn, ",") != strings.Join(alpn, ",") {
				hows[i].flags &^= 1
			}
			if i > 0 && g.Rng.Chance(1, 3) && c06CfgSame(ss[i].cfg, ss[i-1].cfg) && ss[i].cfg.enabled {
				hows[i] = c06How{0, 4}
			}
		}
		s := hx.Pick(g.Rng, rnames)
		h := hx.Pick(g.Rng, rnames)
		if g.Rng.Chance(1, 2) {
			h = s
		}
		p443 := g.Rng.Chance(2, 3)
		if g.Rng.Chance(1, 4) && !strings.Contains(h, ":") {
			h += map[bool]string{true: ":443", false: ":2015"}[p443]
		}
		emit(ss, p443, sp, hows, s, h, hx.Pick(g.Rng, []string{"/", "/x", "/x/y"}))
	}
}

func init() {
	hx.Register(&hx.Stream{ID: "C06", Name: "c06.loaded", Gen: c06LoadedGen, Eval: c06LoadedEval, Setup: c06LoadedSetup, Teardown: c06SetupTeardown})
}
