//go:build c13

package streams

import (
	"fmt"
	"io"
	"strconv"
	"strings"

	"github.com/tmpim/casket/caskethttp/fastcgi"

	"verifharness/hx"
)

// c13.reads: the io.Reader contract of streamReader, observed call by call on the real reader.

// dribbleConn delivers at most chunk bytes per Read (0 = as many as fit) and, if zeroEvery > 0,
// returns (0, nil) on every zeroEvery-th call — both allowed for an io.Reader.
type dribbleConn struct {
	data      []byte
	chunk     int
	zeroEvery int
	calls     int
}

func (c *dribbleConn) Read(b []byte) (int, error) {
	c.calls++
	if c.zeroEvery > 0 && c.calls%c.zeroEvery == 0 {
		return 0, nil
	}
	if len(c.data) == 0 {
		return 0, io.EOF
	}
	n := len(b)
	if c.chunk > 0 && c.chunk < n {
		n = c.chunk
	}
	if n > len(c.data) {
		n = len(c.data)
	}
	copy(b, c.data[:n])
	c.data = c.data[n:]
	return n, nil
}
func (c *dribbleConn) Write(b []byte) (int, error) { return len(b), nil }
func (c *dribbleConn) Close() error                { return nil }

// c13ReadAll reads the stream with a buffer of plen bytes until an error; counts calls that
// returned (0, nil).
func c13ReadAll(raw []byte, plen, chunk, zeroEvery int) string {
	return c13Guard(func() string {
		c := fastcgi.VerifNewClient(&dribbleConn{data: append([]byte(nil), raw...), chunk: chunk, zeroEvery: zeroEvery}, 1)
		sr := c.VerifStreamReader()
		p := make([]byte, plen)
		var out []byte
		zero, fin := 0, ""
		for calls := 0; fin == ""; calls++ {
			if calls > 4*len(raw)+1000 {
				fin = "stuck"
				break
			}
			n, err := sr.Read(p)
			out = append(out, p[:n]...)
			switch {
			case err == nil:
				if n == 0 {
					zero++
				}
			case err == io.EOF:
				fin = "eof"
			case err == io.ErrUnexpectedEOF:
				fin = "ueof"
			case strings.Contains(err.Error(), "invalid header version"):
				fin = "badver"
			default:
				fin = "other:" + err.Error()
			}
		}
		return fmt.Sprintf("zero=%d;out=%s;err=%s;fin=%s", zero, hx.H(out), hx.H(c.VerifStderr()), fin)
	})
}

// c13Burst frames a response with `n` consecutive records of one kind at a chosen place:
// where = 0 before any stdout, 1 in the middle of a header line, 2 at the end of a header line,
// 3 in the body; kind 7 = stderr records (with text), 6 = empty stdout records.
func c13Burst(where, n int, kind byte) (stdout, stderr, raw []byte) {
	parts := [][]byte{[]byte("Status: 404 Not Found\r\nX-Se"), []byte("ed: a\r\n"), []byte("Content-Type: text/plain\r\n\r\nhello, "), []byte("world")}
	burst := func() {
		for i := 0; i < n; i++ {
			if kind == 7 {
				line := []byte(fmt.Sprintf("PHP Notice: %d\n", i))
				raw = append(raw, fcgiRec(7, 1, line, i%8)...)
				stderr = append(stderr, line...)
			} else {
				raw = append(raw, fcgiRec(6, 1, nil, i%8)...)
			}
		}
	}
	for i, p := range parts {
		if i == where {
			burst()
		}
		raw = append(raw, fcgiRec(6, 1, p, 0)...)
		stdout = append(stdout, p...)
	}
	raw = append(raw, fcgiRec(6, 1, nil, 0)...)
	raw = append(raw, fcgiRec(3, 1, make([]byte, 8), 0)...)
	return
}

var c13BurstSizes = []int{1, 2, 99, 100, 101, 199, 200, 201, 400}

func init() {
	hx.Register(&hx.Stream{ID: "C13", Name: "c13.reads",
		Gen: func(g *hx.Gen) {
			r := g.Rng
			emit := func(raw []byte, plen, chunk, zeroEvery int) {
				g.Case(hx.H(raw), strconv.Itoa(plen), strconv.Itoa(chunk), strconv.Itoa(zeroEvery))
			}
			// long runs of stderr records and of empty stdout records, everywhere in the response
			for where := 0; where < 4; where++ {
				for _, n := range c13BurstSizes {
					for _, kind := range []byte{7, 6} {
						_, _, raw := c13Burst(where, n, kind)
						emit(raw, hx.Pick(r, []int{1, 4096, 70000}), hx.Pick(r, []int{0, 1, 8, 1000}), hx.Pick(r, []int{0, 0, 3}))
					}
				}
			}
			// every buffer size / delivery size combination on one conversation with both kinds of records
			_, _, conv := c13Burst(1, 3, 7)
			for _, plen := range []int{1, 2, 7, 8, 64, 4096, 70000} {
				for _, chunk := range []int{0, 1, 2, 7, 8, 9, 1000} {
					for _, ze := range []int{0, 2, 5} {
						emit(conv, plen, chunk, ze)
					}
				}
			}
			n := 400
			if g.Thorough() {
				n = 20000
			}
			for i := 0; i < n; i++ {
				var raw []byte
				switch r.Intn(3) {
				case 0: // conforming framings as in c13.demux
					out := []byte("Status: 200 OK\r\nX: y\r\n\r\n" + c13Filler(r.Intn(26), r.Intn(300)))
					raw = c13Frame(r, 1, out, []byte(c13Filler(3, r.Intn(40))), r.Intn(16))
				case 1: // arbitrary record sequences, possibly damaged
					for k := r.Intn(12); k > 0; k-- {
						typ := hx.Pick(r, []byte{6, 6, 7, 7, 7, 6, 8, 11, 0})
						raw = append(raw, fcgiRec(typ, uint16(r.Intn(3)), []byte(c13Filler(k, hx.Pick(r, []int{0, 0, 1, 9, 300}))), hx.Pick(r, []int{0, 1, 7, 255}))...)
					}
					if r.Chance(2, 3) {
						raw = append(raw, fcgiRec(3, 1, make([]byte, 8), 0)...)
					}
					if r.Chance(1, 4) && len(raw) > 0 {
						raw = raw[:r.Intn(len(raw))]
					}
				case 2: // a random burst
					_, _, raw = c13Burst(r.Intn(4), 90+r.Intn(130), hx.Pick(r, []byte{7, 7, 6}))
				}
				emit(raw, hx.Pick(r, []int{1, 3, 512, 4096, 70000}), hx.Pick(r, []int{0, 1, 5, 8, 100}), hx.Pick(r, []int{0, 0, 2, 7}))
			}
		},
		Eval: func(f []string) (string, []string) {
			raw := hx.UnH(f[0])
			plen, _ := strconv.Atoi(f[1])
			chunk, _ := strconv.Atoi(f[2])
			ze, _ := strconv.Atoi(f[3])
			split := c13ReadAll(raw, plen, chunk, ze)
			whole := c13ReadAll(raw, plen, 0, 0)
			recs, _ := fcgiSplit(raw)
			run, maxRun, empties := 0, 0, 0
			for _, rc := range recs {
				if rc.typ == 7 {
					run++
					if run > maxRun {
						maxRun = run
					}
				} else {
					run = 0
				}
				if rc.typ != 7 && rc.typ != 3 && len(rc.content) == 0 {
					empties++
				}
			}
			tags := []string{}
			switch {
			case maxRun >= 100:
				tags = append(tags, "stderr-run>=100")
			case maxRun >= 2:
				tags = append(tags, "stderr-run>=2")
			case len(recs) <= 1:
				tags = append(tags, "trivial-one-record")
			default:
				tags = append(tags, "records")
			}
			if empties >= 2 {
				tags = append(tags, "several-empty-data-records")
			}
			if chunk > 0 || ze > 0 {
				tags = append(tags, "dribbling-conn")
			}
			out := split + "\t" + whole
			if strings.Contains(out, "PANIC") {
				tags = append(tags, "panic")
			}
			return out, tags
		}})
}
