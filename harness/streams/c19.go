//go:build c19

package streams

import (
	"bufio"
	"bytes"
	"context"
	"crypto/tls"
	"fmt"
	"io"
	"net"
	"net/http"
	"net/http/httptest"
	"sort"
	"strconv"
	"strings"
	"time"

	"github.com/tmpim/casket"
	"github.com/tmpim/casket/caskethttp/basicauth"
	"github.com/tmpim/casket/caskethttp/fastcgi"
	"github.com/tmpim/casket/caskethttp/httpserver"
	"github.com/tmpim/casket/caskethttp/push"
	"github.com/tmpim/casket/caskettls"

	"verifharness/hx"
)

// Streams of C19: every peer-facing parser runs on the case bytes; the answer is a
// canonical rendering of what it produced, or PANIC:<class>.
// See lean/Driver/C19.lean for the formats.

// c19Guard turns a runtime panic of the code under test into PANIC:index / PANIC:slice / PANIC:other:<msg>.
func c19Guard(f func() string) (out string) {
	defer func() {
		if r := recover(); r != nil {
			msg := fmt.Sprint(r)
			switch {
			case strings.Contains(msg, "index out of range"):
				out = "PANIC:index"
			case strings.Contains(msg, "slice bounds out of range"):
				out = "PANIC:slice"
			default:
				out = "PANIC:other:" + strings.SplitN(msg, "\n", 2)[0]
			}
		}
	}()
	return f()
}

func c19Tags(out string, tags ...string) []string {
	if strings.HasPrefix(out, "PANIC") {
		tags = append(tags, "panic")
	}
	return tags
}

func natList16(xs []uint16) string {
	s := make([]string, len(xs))
	for i, x := range xs {
		s[i] = strconv.Itoa(int(x))
	}
	return strings.Join(s, ",")
}

func c19ShowInfo(i caskettls.ClientHelloInfo) string {
	cu := make([]uint16, len(i.Curves))
	for k, c := range i.Curves {
		cu[k] = uint16(c)
	}
	return fmt.Sprintf("v=%d;cs=%s;cm=%s;ex=%s;cu=%s;pt=%s", i.Version, natList16(i.CipherSuites),
		hx.H(i.CompressionMethods), natList16(i.Extensions), natList16(cu), hx.H(i.Points))
}

// ---------------------------------------------------------------- hello builder

type c19Ext struct {
	id   uint16
	body []byte
}

type c19Hello struct {
	version uint16
	sid     int
	ciphers []uint16
	comp    []byte
	exts    []c19Ext
	noExts  bool // no extensions block at all
}

func u16b(v int) []byte { return []byte{byte(v >> 8), byte(v)} }

func curvesExt(curves []uint16) c19Ext {
	b := u16b(2 * len(curves))
	for _, c := range curves {
		b = append(b, u16b(int(c))...)
	}
	return c19Ext{10, b}
}

func pointsExt(pts []byte) c19Ext { return c19Ext{11, append([]byte{byte(len(pts))}, pts...)} }

// message renders the handshake message (what parseRawClientHello receives).
func (h c19Hello) message(r *hx.Rng) []byte {
	var b []byte
	b = append(b, u16b(int(h.version))...)
	for i := 0; i < 32; i++ {
		b = append(b, byte(r.Intn(256)))
	}
	b = append(b, byte(h.sid))
	for i := 0; i < h.sid; i++ {
		b = append(b, byte(i))
	}
	b = append(b, u16b(2*len(h.ciphers))...)
	for _, c := range h.ciphers {
		b = append(b, u16b(int(c))...)
	}
	b = append(b, byte(len(h.comp)))
	b = append(b, h.comp...)
	if !h.noExts {
		var e []byte
		for _, x := range h.exts {
			e = append(e, u16b(int(x.id))...)
			e = append(e, u16b(len(x.body))...)
			e = append(e, x.body...)
		}
		b = append(b, u16b(len(e))...)
		b = append(b, e...)
	}
	return append([]byte{1, byte(len(b) >> 16), byte(len(b) >> 8), byte(len(b))}, b...)
}

// record prepends the TLS record header (what arrives on the connection).
func c19Record(msg []byte) []byte {
	return append([]byte{22, 3, 1, byte(len(msg) >> 8), byte(len(msg))}, msg...)
}

var (
	c19FirefoxCiphers = []uint16{0x1301, 0x1303, 0x1302, 0xc02b, 0xc02f, 0xcca9, 0xcca8, 0xc02c, 0xc030, 0xc00a, 0xc009, 0xc013, 0xc014, 0x33, 0x39, 0x2f, 0x35, 0xa}
	c19SafariCiphers  = []uint16{0xc02c, 0xc02b, 0xc024, 0xc023, 0xc00a, 0xc009, 0xc030, 0xc02f, 0xc028, 0xc027, 0xc014, 0xc013, 0x9d, 0x9c, 0x3d, 0x3c, 0x35, 0x2f}
	c19ChromeCiphers  = []uint16{0x1a1a, 0xc02b, 0xc02f, 0xc02c, 0xc030, 0xcca9, 0xcca8, 0xc013, 0xc014, 0x9c, 0x9d, 0x2f, 0x35, 0xa}
	c19EdgeCiphers    = []uint16{0xc02c, 0xc02b, 0xc030, 0xc02f, 0x9f, 0x9e, 0xc024, 0xc023, 0xc028, 0xc027, 0xc00a, 0xc009, 0xc014, 0xc013, 0x39, 0x33, 0x9d, 0x9c, 0x3d, 0x3c, 0x35, 0x2f, 0xa}
)

func plainExts(ids ...uint16) []c19Ext {
	var out []c19Ext
	for _, id := range ids {
		switch id {
		case 10:
			out = append(out, curvesExt([]uint16{29, 23, 24}))
		case 11:
			out = append(out, pointsExt([]byte{0}))
		default:
			out = append(out, c19Ext{id, nil})
		}
	}
	return out
}

func replaceExt(exts []c19Ext, e c19Ext) []c19Ext {
	out := append([]c19Ext(nil), exts...)
	for i := range out {
		if out[i].id == e.id {
			out[i] = e
			return out
		}
	}
	return append(out, e)
}

// c19Profile returns a hello that the named heuristic accepts, with the given curve list.
func c19Profile(name string, curves []uint16) c19Hello {
	h := c19Hello{version: 0x0303, sid: 0, comp: []byte{0}}
	switch name {
	case "firefox":
		h.ciphers = c19FirefoxCiphers
		h.exts = plainExts(0, 23, 65281, 10, 11, 35, 16, 5, 13)
	case "tor":
		h.ciphers = c19FirefoxCiphers
		h.exts = plainExts(0, 65281, 10, 11, 16, 5, 13)
	case "chrome":
		h.ciphers = c19ChromeCiphers
		h.exts = plainExts(0x7a7a, 65281, 0, 23, 35, 13, 5, 18, 16, 30032, 11, 10, 0x1a1a)
	case "safari":
		h.ciphers = append([]uint16{0xff}, c19SafariCiphers...)
		h.exts = plainExts(0, 10, 11, 13, 13172, 16, 5, 18, 23)
	case "safari11":
		h.ciphers = c19SafariCiphers
		h.exts = plainExts(65281, 0, 23, 13, 5, 13172, 18, 16, 11, 10)
	case "edge":
		h.ciphers = c19EdgeCiphers
		h.exts = plainExts(5, 10, 11, 13, 35, 16, 23, 65281)
	case "heartbeat":
		h.ciphers = c19EdgeCiphers
		h.exts = plainExts(11, 10, 35, 13, 15)
	default:
		h.ciphers = []uint16{0x2f, 0x35}
		h.exts = nil
	}
	if curves != nil {
		h.exts = replaceExt(h.exts, curvesExt(curves))
	}
	return h
}

var c19ProfileNames = []string{"firefox", "tor", "chrome", "safari", "safari11", "edge", "heartbeat", "bare"}

// a few ClientHello messages captured from browsers (caskethttp/httpserver/mitm_test.go)
var c19Captured = []string{
	// Chrome 56
	`010000c003031dae75222dae1433a5a283ddcde8ddabaefbf16d84f250eee6fdff48cdfff8a00000201a1ac02bc02fc02cc030cca9cca8cc14cc13c013c014009c009d002f0035000a010000777a7a0000ff010001000000000e000c0000096c6f63616c686f73740017000000230000000d00140012040308040401050308050501080606010201000500050100000000001200000010000e000c02683208687474702f312e3175500000000b00020100000a000a0008aaaa001d001700182a2a000100`,
	// Firefox 51
	`010000bd030375f9022fc3a6562467f3540d68013b2d0b961979de6129e944efe0b35531323500001ec02bc02fcca9cca8c02cc030c00ac009c013c01400330039002f0035000a010000760000000e000c0000096c6f63616c686f737400170000ff01000100000a000a0008001d001700180019000b00020100002300000010000e000c02683208687474702f312e31000500050100000000ff030000000d0020001e040305030603020308040805080604010501060102010402050206020202`,
	// Firefox 53 on Fedora
	`010000b70303f5280b74d617d42e39fd77b78a2b537b1d7787ce4fcbcf3604c9fbcd677c6c5500001ec02bc02fcca9cca8c02cc030c00ac009c013c01400330039002f0035000a0100007000000014001200000f66696e6572706978656c732e636f6d00170000ff01000100000a000a0008001d001700180019000b00020100002300000010000e000c02683208687474702f312e31000500050100000000000d0018001604030503060308040805080604010501060102030201`,
	// Edge 14
	`010000bd030358a3c9bf05f734842e189fb6ce653b67b846e990bc1fc5fb8c397874d06020f1000038c02cc02bc030c02f009f009ec024c023c028c027c00ac009c014c01300390033009d009c003d003c0035002f000a006a00400038003200130100005c000500050100000000000a00080006001d00170018000b00020100000d00140012040105010201040305030203020206010603002300000010000e000c02683208687474702f312e310017000055000006000100020002ff01000100`,
	// Safari 10
	`010000d2030358a295b513c8140c6ff880f4a8a73cc830ed2dab2c4f2068eb365228d828732e00002600ffc02cc02bc024c023c00ac009c030c02fc028c027c014c013009d009c003d003c0035002f010000830000000e000c0000096c6f63616c686f7374000a00080006001700180019000b00020100000d00120010040102010501060104030203050306033374000000100030002e0268320568322d31360568322d31350568322d313408737064792f332e3106737064792f3308687474702f312e310005000501000000000012000000170000`,
	// Tor browser (Firefox 45)
	`010000a40303137f05d4151f2d9095aee4254416d9dce73d6a1d857e8097ea20d021c04a7a81000016c02bc02fc00ac009c013c01400330039002f0035000a0100006500000014001200000f66696e6572706978656c732e636f6dff01000100000a00080006001700180019000b00020100337400000010000b000908687474702f312e31000500050100000000000d001600140401050106010201040305030603020304020202`,
	// Tor browser (Firefox 52)
	`010000b4030322e1f3aff4c37caba303c2ce53ba1689b3e70117a46f413d44f70a74cb6a496100001ec02bc02fcca9cca8c02cc030c00ac009c013c01400330039002f0035000a0100006d00000014001200000f66696e6572706978656c732e636f6d00170000ff01000100000a000a0008001d001700180019000b000201000010000b000908687474702f312e31000500050100000000ff030000000d0018001604030503060308040805080604010501060102030201`,
	// heartbeat-advertising middlebox
	`0100012b03035d385236b8ca7b7946fa0336f164e76bf821ed90e8de26d97cc677671b6f36380000acc030c02cc028c024c014c00a00a500a300a1009f006b006a0069006800390038003700360088008700860085c032c02ec02ac026c00fc005009d003d00350084c02fc02bc027c023c013c00900a400a200a0009e00670040003f003e0033003200310030009a0099009800970045004400430042c031c02dc029c025c00ec004009c003c002f009600410007c011c007c00cc00200050004c012c008001600130010000dc00dc003000a00ff0201000055000b000403000102000a001c001a00170019001c001b0018001a0016000e000d000b000c0009000a00230000000d0020001e060106020603050105020503040104020403030103020303020102020203000f000101`,
}

var c19UAs = []string{
	"Mozilla/5.0 (Macintosh; Intel Mac OS X 10_12_3) AppleWebKit/537.36 (KHTML, like Gecko) Chrome/56.0.2924.87 Safari/537.36",
	"Mozilla/5.0 (iPhone; CPU iPhone OS 10_0_2 like Mac OS X) AppleWebKit/602.1.50 (KHTML, like Gecko) CriOS/56.0.2924.79 Mobile/14A456 Safari/602.1",
	"Mozilla/5.0 (Macintosh; Intel Mac OS X 10.12; rv:51.0) Gecko/20100101 Firefox/51.0",
	"Mozilla/5.0 (X11; Fedora; Linux x86_64; rv:53.0) Gecko/20100101 Firefox/53.0",
	"Mozilla/5.0 (Windows NT 10.0; WOW64; rv:51.0) Gecko/20100101 Firefox/51.0",
	"Mozilla/5.0 (Windows NT 6.1; rv:45.0) Gecko/20100101 Firefox/45.0",
	"Mozilla/5.0 (Windows NT 6.1; rv:52.0) Gecko/20100101 Firefox/52.0",
	"Mozilla/5.0 (Windows NT 6.1; rv:52.0) Gecko/20100101 Firefox/52",
	"Mozilla/5.0 (Windows NT 6.1; rv:45.0) Gecko/20100101 Firefox/45.0.0 x",
	"Mozilla/5.0 (Windows NT 6.1; rv:45.0) Gecko/20100101 Firefox/45.0.1",
	"Mozilla/5.0 (Windows NT 6.1; rv:45.0) Gecko/20100101 Firefox/4-5.",
	"Mozilla/5.0 (Windows NT 6.1) Gecko/20100101 Firefox/nightly",
	"Mozilla/5.0 (Windows NT 6.1) Gecko/20100101 Firefox/",
	"Windows Firefox",
	"Mozilla/5.0 (Windows NT 10.0; Win64; x64) AppleWebKit/537.36 (KHTML, like Gecko) Chrome/51.0.2704.79 Safari/537.36 Edge/14.14393",
	"Mozilla/5.0 (Windows NT 10.0; WOW64; Trident/7.0; rv:11.0) like Gecko",
	"Mozilla/4.0 (compatible; MSIE 8.0; Windows NT 5.1)",
	"Mozilla/5.0 (Macintosh; Intel Mac OS X 10_12_3) AppleWebKit/602.4.8 (KHTML, like Gecko) Version/10.0.3 Safari/602.4.8",
	"curl/7.51.0",
	"",
}

// ---------------------------------------------------------------- mutation

// c19Mutate applies one structure-aware or blunt mutation to a message.
func c19Mutate(r *hx.Rng, msg []byte) []byte {
	b := append([]byte(nil), msg...)
	if len(b) == 0 {
		return b
	}
	switch r.Intn(9) {
	case 0: // truncate
		return b[:r.Intn(len(b)+1)]
	case 1: // bump a byte by ±1 (length fields are hit often because they are many)
		i := r.Intn(len(b))
		if r.Bool() {
			b[i]++
		} else {
			b[i]--
		}
	case 2: // overwrite a byte
		b[r.Intn(len(b))] = byte(r.Intn(256))
	case 3: // set one of the structural bytes: session id length
		if len(b) > 38 {
			b[38] = byte(r.Intn(40))
		}
	case 4: // delete a byte
		i := r.Intn(len(b))
		b = append(b[:i], b[i+1:]...)
	case 5: // insert a byte
		i := r.Intn(len(b) + 1)
		b = append(b[:i], append([]byte{byte(r.Intn(256))}, b[i:]...)...)
	case 6: // append junk
		for k := r.Intn(6); k >= 0; k-- {
			b = append(b, byte(r.Intn(256)))
		}
	case 7: // zero a run
		i := r.Intn(len(b))
		for k := 0; k < 4 && i+k < len(b); k++ {
			b[i+k] = 0
		}
	case 8: // 0xff a byte
		b[r.Intn(len(b))] = 0xff
	}
	return b
}

func c19RandomHello(r *hx.Rng) c19Hello {
	h := c19Profile(hx.Pick(r, c19ProfileNames), nil)
	if r.Chance(1, 2) {
		n := r.Intn(8)
		pool := []uint16{29, 23, 24, 25, 256, 257, 29, 23, 24, 25, 1, 0xaaaa}
		var cs []uint16
		if r.Bool() {
			cs = append(cs, pool[:n]...)
		} else {
			for i := 0; i < n; i++ {
				cs = append(cs, hx.Pick(r, pool))
			}
		}
		h.exts = replaceExt(h.exts, curvesExt(cs))
	}
	if r.Chance(1, 3) { // drop, duplicate or swap extensions
		if len(h.exts) > 1 {
			i, j := r.Intn(len(h.exts)), r.Intn(len(h.exts))
			switch r.Intn(3) {
			case 0:
				h.exts[i], h.exts[j] = h.exts[j], h.exts[i]
			case 1:
				h.exts = append(h.exts[:i:i], h.exts[i+1:]...)
			case 2:
				h.exts = append(h.exts, h.exts[i])
			}
		}
	}
	if r.Chance(1, 3) { // cipher list surgery
		cs := append([]uint16(nil), h.ciphers...)
		switch r.Intn(4) {
		case 0:
			cs = cs[:r.Intn(len(cs)+1)]
		case 1:
			cs = append(cs, hx.Pick(r, []uint16{0xff, 0x4, 0x5, 0x0a0a, 0xc024, 0x33}))
		case 2:
			if len(cs) > 1 {
				i := r.Intn(len(cs) - 1)
				cs[i], cs[i+1] = cs[i+1], cs[i]
			}
		case 3:
			cs = nil
		}
		h.ciphers = cs
	}
	if r.Chance(1, 5) {
		h.sid = r.Intn(33)
	}
	if r.Chance(1, 8) {
		h.exts = append(h.exts, pointsExt(make([]byte, r.Intn(4))))
	}
	if r.Chance(1, 10) {
		h.noExts = true
	}
	return h
}

// ---------------------------------------------------------------- c19.hello / c19.looks

func c19HelloCases(g *hx.Gen, emit func(msg []byte)) {
	r := g.Rng
	// profiles with every curve-list length 0..7 (the lists Firefox/Tor heuristics index into)
	for _, p := range c19ProfileNames {
		for n := 0; n <= 7; n++ {
			emit(c19Profile(p, []uint16{29, 23, 24, 25, 256, 257, 258}[:n]).message(r))
			emit(c19Profile(p, []uint16{23, 24, 25, 29, 256, 257, 258}[:n]).message(r))
		}
		emit(c19Profile(p, nil).message(r))
	}
	// the two extensions whose bodies are parsed: every body of length 0..4 over a small
	// alphabet (all the length-field combinations that matter), as last extension and followed by another
	var bodies [][]byte
	var rec func(p []byte)
	rec = func(p []byte) {
		bodies = append(bodies, append([]byte(nil), p...))
		if len(p) < 4 {
			for _, c := range []byte{0, 1, 2, 4} {
				rec(append(append([]byte(nil), p...), c))
			}
		}
	}
	rec(nil)
	for _, id := range []uint16{10, 11} {
		for _, b := range bodies {
			h := c19Profile("bare", nil)
			h.exts = []c19Ext{{23, nil}, {id, b}}
			emit(h.message(r))
			h.exts = []c19Ext{{id, b}, {23, nil}}
			emit(h.message(r))
		}
	}
	// every extension order of length <= 4 over the ids the heuristics look for by position
	var orders [][]uint16
	var rec2 func(p []uint16)
	rec2 = func(p []uint16) {
		orders = append(orders, append([]uint16(nil), p...))
		if len(p) < 4 {
			for _, c := range []uint16{5, 10, 11, 23} {
				rec2(append(append([]uint16(nil), p...), c))
			}
		}
	}
	rec2(nil)
	for _, o := range orders {
		h := c19Profile("edge", nil)
		h.exts = plainExts(o...)
		emit(h.message(r))
	}
	for _, hs := range c19Captured {
		msg := hx.UnH(hs)
		emit(msg)
		// every truncation of two captured hellos, sampled truncations of the others
		step := 7
		if hs == c19Captured[1] || hs == c19Captured[5] || g.Thorough() {
			step = 1
		}
		for i := 0; i < len(msg); i += step {
			emit(msg[:i])
		}
	}
	n := 1500
	if g.Thorough() {
		n = 200000
	}
	for i := 0; i < n; i++ {
		var msg []byte
		if r.Chance(1, 4) {
			msg = hx.UnH(hx.Pick(r, c19Captured))
		} else {
			msg = c19RandomHello(r).message(r)
		}
		for k := r.Intn(4); k > 0; k-- {
			msg = c19Mutate(r, msg)
		}
		emit(msg)
	}
	// random bytes, short and long
	for i := 0; i < n/5; i++ {
		b := make([]byte, r.Intn(120))
		for k := range b {
			b[k] = byte(r.Intn(256))
		}
		emit(b)
	}
}

func c19HelloTags(msg []byte, info caskettls.ClientHelloInfo) []string {
	switch {
	case len(msg) < 42:
		return []string{"trivial-short"}
	case len(info.Extensions) > 0 && len(info.Curves) > 0:
		return []string{"exts", "curves=" + strconv.Itoa(min(len(info.Curves), 8))}
	case len(info.Extensions) > 0:
		return []string{"exts"}
	case len(info.CipherSuites) > 0:
		return []string{"ciphers-only"}
	}
	return []string{"header-only"}
}

func init() {
	hx.Register(&hx.Stream{ID: "C19", Name: "c19.hello",
		Gen: func(g *hx.Gen) { c19HelloCases(g, func(m []byte) { g.Case(hx.H(m)) }) },
		Eval: func(f []string) (string, []string) {
			msg := hx.UnH(f[0])
			var info caskettls.ClientHelloInfo
			out := c19Guard(func() string {
				info = httpserver.VerifParseRawClientHello(msg)
				return c19ShowInfo(info)
			})
			return out, c19Tags(out, c19HelloTags(msg, info)...)
		}})

	hx.Register(&hx.Stream{ID: "C19", Name: "c19.looks",
		Gen: func(g *hx.Gen) { c19HelloCases(g, func(m []byte) { g.Case(hx.H(m)) }) },
		Eval: func(f []string) (string, []string) {
			msg := hx.UnH(f[0])
			var info caskettls.ClientHelloInfo
			if p := c19Guard(func() string { info = httpserver.VerifParseRawClientHello(msg); return "" }); p != "" {
				return p, []string{"panic"}
			}
			var parts []string
			any := false
			for _, w := range []struct{ k, name string }{{"f", "firefox"}, {"c", "chrome"}, {"e", "edge"}, {"s", "safari"}, {"t", "tor"}, {"h", "heartbeat"}} {
				v := c19Guard(func() string {
					if httpserver.VerifLooksLike(w.name, info) {
						return "1"
					}
					return "0"
				})
				if strings.HasPrefix(v, "PANIC") {
					v = "P"
				}
				if v == "1" {
					any = true
				}
				parts = append(parts, w.k+"="+v)
			}
			out := strings.Join(parts, " ")
			tags := c19HelloTags(msg, info)
			if any {
				tags = append(tags, "some-heuristic-accepts")
			}
			if strings.Contains(out, "P") {
				tags = append(tags, "panic")
			}
			return out, tags
		}})
}

// ---------------------------------------------------------------- c19.seg / c19.mitm

// c19Conn is a scripted connection: each Read delivers the next segment (or what fits).
type c19Conn struct {
	segs [][]byte
	addr string
}

type c19Addr string

func (a c19Addr) Network() string { return "tcp" }
func (a c19Addr) String() string  { return string(a) }

func (c *c19Conn) Read(b []byte) (int, error) {
	if len(c.segs) == 0 {
		return 0, io.EOF
	}
	n := copy(b, c.segs[0])
	if n == len(c.segs[0]) {
		c.segs = c.segs[1:]
	} else {
		c.segs[0] = c.segs[0][n:]
	}
	return n, nil
}
func (c *c19Conn) Write(b []byte) (int, error)        { return len(b), nil }
func (c *c19Conn) Close() error                       { return nil }
func (c *c19Conn) LocalAddr() net.Addr                { return c19Addr("192.0.2.1:443") }
func (c *c19Conn) RemoteAddr() net.Addr               { return c19Addr(c.addr) }
func (c *c19Conn) SetDeadline(t time.Time) error      { return nil }
func (c *c19Conn) SetReadDeadline(t time.Time) error  { return nil }
func (c *c19Conn) SetWriteDeadline(t time.Time) error { return nil }

func c19Cut(b []byte, cuts []int) [][]byte {
	var segs [][]byte
	pos := 0
	for _, c := range cuts {
		if c < pos {
			c = pos
		}
		if c > len(b) {
			c = len(b)
		}
		segs = append(segs, append([]byte(nil), b[pos:c]...))
		pos = c
	}
	return append(segs, append([]byte(nil), b[pos:]...))
}

func c19ParseCuts(s string) []int {
	var cuts []int
	if s == "" {
		return cuts
	}
	for _, p := range strings.Split(s, ",") {
		n, _ := strconv.Atoi(p)
		cuts = append(cuts, n)
	}
	return cuts
}

const c19Remote = "198.51.100.9:51234"

// c19Feed pushes the stream through a real clientHelloConn, reading the way crypto/tls does
// (a Read per delivery), and returns the listener.
func c19Feed(stream []byte, cuts []int) *httpserver.VerifHelloListener {
	// the real tlsHelloListener.Accept (bufpool.Get and all); the harness plays crypto/tls and calls
	// Read on the clientHelloConn under the *tls.Conn that Accept returns
	ln, l := httpserver.VerifTLSHelloListener(&c19QueueListener{queue: []net.Conn{&c19Conn{segs: c19Cut(stream, cuts), addr: c19Remote}}}, &tls.Config{})
	c, err := ln.Accept()
	if err != nil {
		panic("verif: accept: " + err.Error())
	}
	hc := c.(*tls.Conn).NetConn()
	buf := make([]byte, 70000)
	for {
		if _, err := hc.Read(buf); err != nil {
			break
		}
	}
	return l
}

func c19Recorded(stream []byte, cuts []int) string {
	return c19Guard(func() string {
		info, ok := c19Feed(stream, cuts).Recorded(c19Remote)
		if !ok {
			return "-"
		}
		return c19ShowInfo(info)
	})
}

func c19CutsString(cuts []int) string {
	s := make([]string, len(cuts))
	for i, c := range cuts {
		s[i] = strconv.Itoa(c)
	}
	return strings.Join(s, ",")
}

func c19RandomCuts(r *hx.Rng, n int) []int {
	k := 1 + r.Intn(4)
	cuts := make([]int, k)
	for i := range cuts {
		if r.Chance(1, 3) {
			cuts[i] = r.Intn(12) // around the record header
		} else {
			cuts[i] = r.Intn(n + 2)
		}
	}
	sort.Ints(cuts)
	return cuts
}

func c19SegGen(g *hx.Gen) {
	r := g.Rng
	var streams [][]byte
	for _, hs := range c19Captured[:3] {
		streams = append(streams, c19Record(hx.UnH(hs)))
	}
	streams = append(streams, c19Record(c19Profile("firefox", []uint16{29, 23, 24, 25, 256}).message(r)))
	// every 2-cut of these streams (thorough: of all captured ones)
	if g.Thorough() {
		for _, hs := range c19Captured[3:] {
			streams = append(streams, c19Record(hx.UnH(hs)))
		}
	}
	for _, s := range streams {
		for c := 0; c <= len(s); c++ {
			g.Case(hx.H(s), strconv.Itoa(c))
		}
		// the message followed by more traffic, cut everywhere around the header and the end
		more := append(append([]byte(nil), s...), 20, 3, 3, 0, 1, 1, 22, 3, 3, 0, 2, 9, 9)
		for c := 0; c <= len(more); c++ {
			if c < 12 || c > len(s)-6 {
				g.Case(hx.H(more), strconv.Itoa(c))
			}
		}
	}
	n := 800
	if g.Thorough() {
		n = 100000
	}
	for i := 0; i < n; i++ {
		var msg []byte
		if r.Chance(1, 3) {
			msg = hx.UnH(hx.Pick(r, c19Captured))
		} else {
			msg = c19RandomHello(r).message(r)
		}
		s := c19Record(msg)
		switch r.Intn(6) {
		case 0: // record length says more than there is
			s[3], s[4] = byte((len(msg)+1+r.Intn(300))>>8), byte(len(msg)+1+r.Intn(300))
		case 1: // record length says less
			l := r.Intn(len(msg) + 1)
			s[3], s[4] = byte(l>>8), byte(l)
		case 2: // stream cut short
			s = s[:r.Intn(len(s)+1)]
		case 3: // trailing traffic
			for k := r.Intn(40); k >= 0; k-- {
				s = append(s, byte(r.Intn(256)))
			}
		}
		g.Case(hx.H(s), c19CutsString(c19RandomCuts(r, len(s))))
	}
	// short and random streams
	for i := 0; i < n/4; i++ {
		b := make([]byte, r.Intn(14))
		for k := range b {
			b[k] = byte(r.Intn(4))
		}
		g.Case(hx.H(b), c19CutsString(c19RandomCuts(r, len(b))))
	}
}

func init() {
	hx.Register(&hx.Stream{ID: "C19", Name: "c19.seg", Gen: c19SegGen,
		Eval: func(f []string) (string, []string) {
			stream, cuts := hx.UnH(f[0]), c19ParseCuts(f[1])
			split := c19Recorded(stream, cuts)
			whole := c19Recorded(stream, nil)
			tags := []string{"cuts=" + strconv.Itoa(min(len(cuts), 5))}
			switch {
			case whole == "-":
				tags = append(tags, "nothing-recorded")
			case len(cuts) > 0 && cuts[0] < len(stream) && cuts[0] > 0:
				tags = append(tags, "recorded-and-really-split")
			default:
				tags = append(tags, "trivial-unsplit")
			}
			out := split + "\t" + whole
			return out, c19Tags(out, tags...)
		}})

	hx.Register(&hx.Stream{ID: "C19", Name: "c19.mitm",
		Gen: func(g *hx.Gen) {
			r := g.Rng
			var hellos [][]byte
			for _, p := range c19ProfileNames {
				hellos = append(hellos, c19Profile(p, nil).message(r))
			}
			for n := 3; n <= 7; n++ {
				hellos = append(hellos, c19Profile("firefox", []uint16{29, 23, 24, 25, 256, 257, 258}[:n]).message(r))
				hellos = append(hellos, c19Profile("tor", []uint16{29, 23, 24, 25, 256, 257, 258}[:n]).message(r))
			}
			for _, hs := range c19Captured {
				hellos = append(hellos, hx.UnH(hs))
			}
			for _, m := range hellos {
				s := c19Record(m)
				for _, ua := range c19UAs {
					g.Case(hx.H(s), "", hx.HS(ua), "00")
				}
				g.Case(hx.H(s), strconv.Itoa(len(s)/2), hx.HS(c19UAs[2]), "00")
				g.Case(hx.H(s), "", hx.HS(c19UAs[0]), "10")
				g.Case(hx.H(s), "", hx.HS(c19UAs[0]), "01")
			}
			n := 600
			if g.Thorough() {
				n = 100000
			}
			for i := 0; i < n; i++ {
				msg := c19RandomHello(r).message(r)
				if r.Chance(1, 4) {
					msg = c19Mutate(r, msg)
				}
				s := c19Record(msg)
				cuts := ""
				if r.Chance(1, 3) {
					cuts = c19CutsString(c19RandomCuts(r, len(s)))
				}
				flags := "00"
				if r.Chance(1, 20) {
					flags = hx.Pick(r, []string{"10", "01", "11"})
				}
				g.Case(hx.H(s), cuts, hx.HS(hx.Pick(r, c19UAs)), flags)
			}
			// no hello recorded at all
			g.Case("", "", hx.HS(c19UAs[2]), "00")
			g.Case("1603", "", hx.HS(c19UAs[4]), "00")
		},
		Eval: func(f []string) (string, []string) {
			stream, cuts, ua, flags := hx.UnH(f[0]), c19ParseCuts(f[1]), hx.UnHS(f[2]), f[3]
			verdict := "unchecked"
			out := c19Guard(func() string {
				l := c19Feed(stream, cuts)
				next := http.HandlerFunc(func(w http.ResponseWriter, r *http.Request) {
					if v, ok := r.Context().Value(httpserver.MitmCtxKey).(bool); ok {
						if v {
							verdict = "checked:1"
						} else {
							verdict = "checked:0"
						}
					}
				})
				req := httptest.NewRequest("GET", "https://example.test/", nil)
				req.RemoteAddr = c19Remote
				req.Header.Set("User-Agent", ua)
				if flags[0] == '1' {
					req.Header.Set("X-BlueCoat-Via", "abc")
				}
				if flags[1] == '1' {
					req.Header.Set("X-FCCKV2", "abc")
				}
				l.Handler(next).ServeHTTP(httptest.NewRecorder(), req)
				return verdict
			})
			tag := "ua-other"
			for _, k := range []string{"Edge", "MSIE", "Trident", "Chrome", "CriOS", "Firefox", "Safari"} {
				if strings.Contains(ua, k) {
					tag = "ua-" + k
					break
				}
			}
			if out == "unchecked" {
				return out, c19Tags(out, "trivial-unchecked", tag)
			}
			return out, c19Tags(out, tag, out)
		}})
}

// ---------------------------------------------------------------- c19.ua / c19.uafuzz

func c19FormatVer(v float64) string {
	if v == -1 {
		return "-1"
	}
	return strconv.FormatFloat(v, 'f', -1, 64)
}

func init() {
	hx.Register(&hx.Stream{ID: "C19", Name: "c19.ua",
		Gen: func(g *hx.Gen) {
			r := g.Rng
			// version tokens: plain decimals (dots and dashes as getVersion strips them) and certain non-numbers
			toks := []string{"45.0", "52.0", "45", "52.", "51.0.1", "4-5.0", "45.0.0.0", "0.5", ".5", "007.50", "1.2.3.4.5", "99999.125",
				"nightly", "", "5z", "1;2", "(x)", "45,0", "4 5", "45.0 ", "-", "--", "1-", "12345678.1234567", "0", "0.0", "000"}
			names := []string{"Firefox", "Chrome", "Version", "Safari", "x"}
			for _, t := range toks {
				for _, nm := range names {
					g.Case(hx.HS("Mozilla/5.0 (Windows NT 6.1) "+nm+"/"+t), hx.HS(nm))
					g.Case(hx.HS("Mozilla/5.0 "+nm+"/"+t+" Other/1.0"), hx.HS(nm))
					g.Case(hx.HS(nm+"/"+t), hx.HS(nm))
				}
			}
			for _, ua := range c19UAs {
				for _, nm := range names {
					g.Case(hx.HS(ua), hx.HS(nm))
				}
			}
			n := 1500
			if g.Thorough() {
				n = 30000
			}
			for i := 0; i < n; i++ {
				var t strings.Builder
				for k := r.Intn(9); k > 0; k-- {
					t.WriteString(hx.Pick(r, []string{"0", "1", "4", "5", "2", "9", ".", "-", "45", "52"}))
				}
				tok := t.String()
				if digits := strings.Count(tok, "") - 1 - strings.Count(tok, ".") - strings.Count(tok, "-"); digits > 14 {
					continue
				}
				if r.Chance(1, 6) {
					tok += hx.Pick(r, []string{"z", ";", ")", "/", "_q"})
				}
				nm := hx.Pick(r, names)
				g.Case(hx.HS(hx.Pick(r, []string{"", "Mozilla/5.0 ", "Windows "})+nm+"/"+tok+hx.Pick(r, []string{"", " ", " tail/2.0", "  "})), hx.HS(nm))
			}
		},
		Eval: func(f []string) (string, []string) {
			ua, name := hx.UnHS(f[0]), hx.UnHS(f[1])
			out := c19Guard(func() string { return c19FormatVer(httpserver.VerifGetVersion(ua, name)) })
			if out == "-1" {
				return out, c19Tags(out, "no-version")
			}
			return out, c19Tags(out, "version")
		}})

	hx.Register(&hx.Stream{ID: "C19", Name: "c19.uafuzz",
		Gen: func(g *hx.Gen) {
			r := g.Rng
			pieces := []string{"Firefox", "/", " ", ".", "-", "4", "5", "e", "x", "\x00", "\xff", "Fire", "fox/", "//", "0x", "_", "+", "inf", "1e9"}
			n := 4000
			if g.Thorough() {
				n = 60000
			}
			for i := 0; i < n; i++ {
				var ua, nm strings.Builder
				for k := r.Intn(10); k > 0; k-- {
					ua.WriteString(hx.Pick(r, pieces))
				}
				if r.Chance(2, 3) {
					nm.WriteString("Firefox")
				} else {
					for k := r.Intn(3); k > 0; k-- {
						nm.WriteString(hx.Pick(r, pieces))
					}
				}
				g.Case(hx.HS(ua.String()), hx.HS(nm.String()))
			}
			// exhaustive: every string of length <= 4 over a 4-letter alphabet with name "a"
			alpha := []byte{'a', '/', ' ', '.'}
			var rec func(p []byte)
			rec = func(p []byte) {
				g.Case(hx.H(p), hx.HS("a"))
				if len(p) < 5 {
					for _, c := range alpha {
						rec(append(append([]byte(nil), p...), c))
					}
				}
			}
			rec(nil)
		},
		Eval: func(f []string) (string, []string) {
			ua, name := hx.UnHS(f[0]), hx.UnHS(f[1])
			v := 0.0
			out := c19Guard(func() string { v = httpserver.VerifGetVersion(ua, name); return "ok" })
			if !strings.Contains(ua, name+"/") {
				return out, c19Tags(out, "trivial-name-absent")
			}
			if v == -1 {
				return out, c19Tags(out, "present-unparsable")
			}
			return out, c19Tags(out, "present-parsed")
		}})
}

// ---------------------------------------------------------------- c19.link

func c19ShowLinks(ls []push.VerifLink) string {
	var parts []string
	for _, l := range ls {
		var keys []string
		for k := range l.Params {
			keys = append(keys, k)
		}
		sort.Strings(keys)
		var ps []string
		for _, k := range keys {
			ps = append(ps, hx.HS(k)+":"+hx.HS(l.Params[k]))
		}
		parts = append(parts, "uri="+hx.HS(l.URI)+"{"+strings.Join(ps, ",")+"}")
	}
	return strings.Join(parts, "|")
}

func init() {
	hx.Register(&hx.Stream{ID: "C19", Name: "c19.link",
		Gen: func(g *hx.Gen) {
			r := g.Rng
			// exhaustive small scope over the structural alphabet
			alpha := []byte{'<', '>', ',', ';', '=', ' ', 'a'}
			maxLen := 4
			if g.Thorough() {
				maxLen = 6
			}
			var rec func(p []byte)
			rec = func(p []byte) {
				g.Case(hx.H(p))
				if len(p) < maxLen {
					for _, c := range alpha {
						rec(append(append([]byte(nil), p...), c))
					}
				}
			}
			rec(nil)
			wellFormed := []string{
				"</resource>; as=script", "</resource>; as=script,</resource2>; as=style", "</resource>;</resource2>",
				"</r>; rel=preload; as=style; nopush", "<//remote/x>; rel=preload", "<https://x/y>; a=b=c; a=d", " < /sp > ; k = v ; k2 ",
				"</a>; nopush ", "　</b> ;x=\u0085y ", "</c>; \xc2=\xa0; \xe2\x80=1",
			}
			for _, w := range wellFormed {
				g.Case(hx.HS(w))
			}
			pieces := []string{"<", ">", ",", ";", "=", " ", "\t", "/a", "as", "nopush", "rel=preload", " ", " ", "\xc2", "\xa0", "\xe2\x80", "\xff", "</x>", "; ", "k=v"}
			n := 3000
			if g.Thorough() {
				n = 60000
			}
			for i := 0; i < n; i++ {
				var b strings.Builder
				if r.Chance(1, 3) {
					b.WriteString(hx.Pick(r, wellFormed))
				}
				for k := r.Intn(12); k > 0; k-- {
					b.WriteString(hx.Pick(r, pieces))
				}
				s := []byte(b.String())
				if r.Chance(1, 4) && len(s) > 0 {
					s[r.Intn(len(s))] = byte(r.Intn(256))
				}
				g.Case(hx.H(s))
			}
		},
		Eval: func(f []string) (string, []string) {
			h := hx.UnHS(f[0])
			var ls []push.VerifLink
			out := c19Guard(func() string { ls = push.VerifParseLinkHeader(h); return c19ShowLinks(ls) })
			li, ri := strings.Index(h, "<"), strings.Index(h, ">")
			switch {
			case len(ls) > 0:
				return out, c19Tags(out, "resources")
			case li >= 0 && ri >= 0 && ri < li:
				return out, c19Tags(out, "close-before-open")
			}
			return out, c19Tags(out, "trivial-no-resource")
		}})
}

// ---------------------------------------------------------------- c19.record / c19.pairs

func c19RandomFraming(r *hx.Rng) []byte {
	var b []byte
	for k := r.Intn(7); k > 0; k-- {
		typ := hx.Pick(r, []byte{6, 6, 6, 7, 7, 6, 8, 11, 0, 4})
		content := make([]byte, hx.Pick(r, []int{0, 1, 2, 7, 8, 9, 30, 300}))
		for i := range content {
			content[i] = byte('a' + r.Intn(26))
		}
		b = append(b, fcgiRec(typ, uint16(r.Intn(3)), content, hx.Pick(r, []int{0, 0, 1, 7, 255}))...)
	}
	if r.Chance(2, 3) {
		b = append(b, fcgiRec(3, 1, make([]byte, 8), 0)...)
	}
	return b
}

func init() {
	hx.Register(&hx.Stream{ID: "C19", Name: "c19.record",
		Gen: func(g *hx.Gen) {
			r := g.Rng
			// every truncation of one small conversation
			conv := append(fcgiRec(6, 1, []byte("Status: 200\r\n\r\nhi"), 7), fcgiRec(7, 1, []byte("warn"), 4)...)
			conv = append(conv, fcgiRec(6, 1, nil, 0)...)
			conv = append(conv, fcgiRec(3, 1, make([]byte, 8), 0)...)
			for i := 0; i <= len(conv); i++ {
				g.Case(hx.H(conv[:i]))
			}
			n := 2500
			if g.Thorough() {
				n = 200000
			}
			for i := 0; i < n; i++ {
				b := c19RandomFraming(r)
				switch r.Intn(6) {
				case 0:
					b = b[:r.Intn(len(b)+1)]
				case 1:
					if len(b) > 0 {
						b[r.Intn(len(b))] = byte(r.Intn(256))
					}
				case 2:
					if len(b) > 8 { // a header field of the first record
						b[r.Intn(8)] = byte(r.Intn(256))
					}
				}
				g.Case(hx.H(b))
			}
			for i := 0; i < n/5; i++ {
				b := make([]byte, r.Intn(40))
				for k := range b {
					b[k] = byte(r.Intn(3))
				}
				g.Case(hx.H(b))
			}
			// the largest record a peer can announce
			big := make([]byte, 65535)
			g.Case(hx.H(append(fcgiRec(6, 1, big, 255), fcgiRec(3, 1, make([]byte, 8), 0)...)))
			g.Case(hx.H(fcgiRec(6, 1, big, 255)[:65535+8+100]))
		},
		Eval: func(f []string) (string, []string) {
			inp := hx.UnH(f[0])
			var stdout []byte
			fin := ""
			var c *fastcgi.FCGIClient
			out := c19Guard(func() string {
				c = fastcgi.VerifNewClient(&fcgiRWC{r: bytes.NewReader(inp)}, 1)
				sr := c.VerifStreamReader()
				buf := make([]byte, 70000)
				for i := 0; ; i++ {
					n, err := sr.Read(buf)
					stdout = append(stdout, buf[:n]...)
					if err != nil {
						switch {
						case err == io.EOF:
							fin = "eof"
						case err == io.ErrUnexpectedEOF:
							fin = "ueof"
						case strings.Contains(err.Error(), "invalid header version"):
							fin = "badver"
						default:
							fin = "other:" + err.Error()
						}
						break
					}
				}
				return "out=" + hx.H(stdout) + ";err=" + hx.H(c.VerifStderr()) + ";fin=" + fin
			})
			tags := []string{"fin=" + fin}
			if len(stdout) > 0 && c != nil && len(c.VerifStderr()) > 0 {
				tags = append(tags, "stdout+stderr")
			} else if len(stdout) == 0 {
				tags = []string{"trivial-no-stdout", "fin=" + fin}
			}
			return out, c19Tags(out, tags...)
		}})

	hx.Register(&hx.Stream{ID: "C19", Name: "c19.pairs",
		Gen: func(g *hx.Gen) {
			lens := []int{0, 1, 127, 128, 65483, 65484, 65485, 65491, 65492, 65493, 65494, 65499, 65500, 65501, 65535, 65536, 70000}
			vals := []int{0, 1, 7, 8, 9, 127, 128, 65500, 70000}
			if g.Thorough() {
				for k := 65470; k < 65520; k++ {
					lens = append(lens, k)
				}
				vals = append(vals, 2, 3, 4, 5, 6, 10, 65491, 65492)
			}
			for _, k := range lens {
				for _, v := range vals {
					g.Case(strconv.Itoa(k), strconv.Itoa(v))
				}
			}
		},
		Eval: func(f []string) (string, []string) {
			kl, _ := strconv.Atoi(f[0])
			vl, _ := strconv.Atoi(f[1])
			rwc := &fcgiRWC{r: bytes.NewReader(nil)}
			out := c19Guard(func() string {
				c := fastcgi.VerifNewClient(rwc, 1)
				if err := c.VerifWritePairs(4, map[string]string{c13Filler(0, kl): c13Filler(7, vl)}); err != nil {
					return "err:" + err.Error()
				}
				return "ok:" + strconv.Itoa(rwc.wrote.Len())
			})
			switch {
			case 8+kl+vl <= fastcgi.VerifMaxWrite:
				return out, c19Tags(out, "fits")
			case kl > fastcgi.VerifMaxWrite-8:
				return out, c19Tags(out, "name-longer-than-a-record")
			}
			return out, c19Tags(out, "value-truncated")
		}})
}

// ---------------------------------------------------------------- c19.explore (no model)

// Entry points whose parsing is done by the standard library or lies outside the Lean models:
// they are only explored for panics.  kind = fcgiresp | replacer | basicauth | fastcgi | servelinks
func init() {
	hx.Register(&hx.Stream{ID: "C19", Name: "c19.explore",
		Gen: func(g *hx.Gen) {
			r := g.Rng
			n := 1500
			if g.Thorough() {
				n = 100000
			}
			hdrs := []string{"Status: 200 OK\r\n", "Status: 404\r\n", "Status: abc\r\n", "Status:\r\n", "Content-Type: text/html\r\n", "X: y\r\n", " cont\r\n",
				":\r\n", "Transfer-Encoding: chunked\r\n", "Content-Length: -1\r\n", "\r\n", "\n", "body", "\x00", "5\r\nhello\r\n0\r\n\r\n", "zz\r\n"}
			for i := 0; i < n; i++ {
				var s strings.Builder
				for k := r.Intn(8); k > 0; k-- {
					s.WriteString(hx.Pick(r, hdrs))
				}
				stream := []byte(s.String())
				var b []byte
				for len(stream) > 0 {
					k := 1 + r.Intn(len(stream))
					b = append(b, fcgiRec(6, 1, stream[:k], r.Intn(8))...)
					stream = stream[k:]
					if r.Chance(1, 4) {
						b = append(b, fcgiRec(7, 1, []byte("e"), 0)...)
					}
				}
				if r.Chance(3, 4) {
					b = append(b, fcgiRec(6, 1, nil, 0)...)
					b = append(b, fcgiRec(3, 1, make([]byte, 8), 0)...)
				}
				if r.Chance(1, 5) && len(b) > 0 {
					b = b[:r.Intn(len(b))]
				}
				g.Case("fcgiresp", hx.H(b))
			}
			hosts := []string{"example.com", "a.b.c.d:80", "[::1]:443", "", ".", "..", "x..y", ":", "[", "a:b:c", "\xff.\x00", "host:99999"}
			paths := []string{"/", "/a/b.php", "//", "/%zz", "/a%00b", "/..;/x", "/a?x=1&x=2&=&%", "/\xff", "*", "/a#frag", "/index.PHP/info"}
			hvals := []string{"", "a", "a, b", "\x00", "\xff\xfe", "Basic", "Basic ", "Basic !!!", "Basic dTpw", "Basic dTo=", "Basic Og==", "basic dTpw", "Basic dTpwOng6eQ==", "x=y; a=b", "=", ";;;", "a=\"b", strings.Repeat("k=v; ", 50)}
			for i := 0; i < n; i++ {
				kind := hx.Pick(r, []string{"replacer", "basicauth"})
				g.Case(kind, hx.HS(hx.Pick(r, hosts)), hx.HS(hx.Pick(r, paths)), hx.HS(hx.Pick(r, hvals)), hx.HS(hx.Pick(r, hvals)))
			}
			// fastcgi.Handler.ServeHTTP up to the dial (the responder address refuses connections)
			for _, rule := range []string{"fastcgi / 127.0.0.1:1", "fastcgi / 127.0.0.1:1 php", "fastcgi /app 127.0.0.1:1 {\n ext .php\n}"} {
				for _, target := range []string{"http://example.test", "http://example.test?x=1", "/", "/a.php", "/%20", "/.", "/%20.%20.", "*", "/app", "/app/", "/app/x.php/", "//", "/a.php/%ff", "/%C8%BA%C8%BA%C8%BA.php", "/%E2%84%AA/a.php", "/%C4%B0/A.PHP/x"} {
					g.Case("fastcgi", hx.HS(rule), hx.HS(target))
				}
			}
			links := []string{">foo<", "</a>", "</a>; nopush", "<//x>", ",", "<", ">", "<>", "</a>,>b<,</c>", "><", "</a>;=;;=", "\xff<\xfe>"}
			for i := 0; i < n/3; i++ {
				g.Case("servelinks", hx.HS(hx.Pick(r, links)), hx.HS(hx.Pick(r, links)))
			}
		},
		Eval: func(f []string) (string, []string) {
			tags := []string{f[0]}
			out := c19Guard(func() string {
				switch f[0] {
				case "fcgiresp":
					c := fastcgi.VerifNewClient(&fcgiRWC{r: bytes.NewReader(hx.UnH(f[1]))}, 1)
					resp, err := c.Request(map[string]string{"A": "b"}, strings.NewReader("x"))
					if err != nil {
						tags = append(tags, "request-error")
					}
					if resp != nil && resp.Body != nil {
						if _, err := io.Copy(io.Discard, resp.Body); err != nil {
							tags = append(tags, "body-error")
						}
						tags = append(tags, "status="+strconv.Itoa(resp.StatusCode/100)+"xx")
					}
				case "replacer", "basicauth":
					host, path, h1, h2 := hx.UnHS(f[1]), hx.UnHS(f[2]), hx.UnHS(f[3]), hx.UnHS(f[4])
					raw := "GET " + path + " HTTP/1.1\r\nHost: " + host + "\r\nAuthorization: " + h1 + "\r\nCookie: " + h2 + "\r\nX-H: " + h2 + "\r\n\r\n"
					req, err := http.ReadRequest(bufio.NewReader(strings.NewReader(raw)))
					if err != nil {
						tags = append(tags, "trivial-rejected-by-net/http")
						return "ok"
					}
					req.RemoteAddr = hx.Pick(hx.NewRng(uint64(len(raw))), []string{"192.0.2.1:1234", "[::1]:1", "nonsense", ""})
					req = req.WithContext(context.WithValue(req.Context(), httpserver.OriginalURLCtxKey, *req.URL))
					if f[0] == "replacer" {
						rep := httpserver.NewReplacer(req, nil, "-")
						rep.Replace("{label1}.{label2}.{label3}.{label0}.{label99} {hostonly} {host} {port} {remote} {server_port} {path} {path_escaped} {dir} {file} {uri} {uri_escaped} {query} {fragment} {>X-H} {>Cookie} {~a} {~k} {?x} {request} {rewrite_uri} {rewrite_path_escaped} {scheme} {proto} {method} {user}")
						tags = append(tags, "parsed")
					} else {
						ba := basicauth.BasicAuth{
							Next:  httpserver.HandlerFunc(func(w http.ResponseWriter, r *http.Request) (int, error) { return 200, nil }),
							Rules: []basicauth.Rule{{Username: "u", Password: func(p string) bool { return p == "p" }, Resources: []string{"/"}, Exclude: []string{"/pub"}}},
						}
						code, _ := ba.ServeHTTP(httptest.NewRecorder(), req)
						tags = append(tags, "code="+strconv.Itoa(code))
					}
				case "fastcgi":
					c := casket.NewTestController("http", hx.UnHS(f[1]))
					action, err := casket.DirectiveAction("http", "fastcgi")
					if err != nil {
						return "setup-error:" + err.Error()
					}
					if err := action(c); err != nil {
						return "setup-error:" + err.Error()
					}
					method := "GET"
					if hx.UnHS(f[2]) == "*" {
						method = "OPTIONS"
					}
					req, err := http.ReadRequest(bufio.NewReader(strings.NewReader(method + " " + hx.UnHS(f[2]) + " HTTP/1.1\r\nHost: example.test\r\n\r\n")))
					if err != nil {
						tags = append(tags, "trivial-rejected-by-net/http")
						return "ok"
					}
					req = req.WithContext(context.WithValue(req.Context(), httpserver.OriginalURLCtxKey, *req.URL))
					h := httpserver.GetConfig(c).Middleware()[0](httpserver.HandlerFunc(func(w http.ResponseWriter, r *http.Request) (int, error) { return 0, nil }))
					code, _ := h.ServeHTTP(httptest.NewRecorder(), req)
					tags = append(tags, "code="+strconv.Itoa(code))
				case "servelinks":
					// the push middleware's handling of Link headers set by an upstream handler
					w := &c19Pusher{ResponseRecorder: httptest.NewRecorder()}
					mw := push.Middleware{Next: httpserver.HandlerFunc(func(w http.ResponseWriter, r *http.Request) (int, error) {
						w.Header().Add("Link", hx.UnHS(f[1]))
						w.Header().Add("Link", hx.UnHS(f[2]))
						return 200, nil
					})}
					mw.ServeHTTP(w, httptest.NewRequest("GET", "https://example.test/", nil))
					tags = append(tags, "pushed="+strconv.Itoa(min(w.n, 3)))
				}
				return "ok"
			})
			return out, c19Tags(out, tags...)
		}})
}

type c19Pusher struct {
	*httptest.ResponseRecorder
	n int
}

func (p *c19Pusher) Push(target string, opts *http.PushOptions) error { p.n++; return nil }

var _ = tls.VersionTLS12

// ---------------------------------------------------------------- c19.replacer

// The Replacer is modelled by slice C20 (lean/Casket/Model/Replacer.lean); this stream reuses
// its evaluator (c20ReplaceEval, harness/streams/c20.go) and its Lean model, and feeds request
// text a hostile peer controls — header values, cookies, query strings, paths, Host — to the
// real NewReplacer(...).Replace over the whole placeholder vocabulary.  The answer is the
// expanded string (compared with the model) or PANIC / HANG (judged).
func c19ReplacerGen(g *hx.Gen) {
	r := g.Rng
	// one format with every placeholder of the vocabulary, and the request-driven sigils
	var all strings.Builder
	for _, k := range c20Keys {
		if strings.HasPrefix(k, "{") && strings.HasSuffix(k, "}") && !strings.Contains(k, "latency") && !strings.Contains(k, "tls_") && !strings.Contains(k, "when") &&
			k != "{hostname}" && k != "{request}" && k != "{request_body}" { // those values are outside slice C20's model (c19.explore fuzzes them)
			all.WriteString(k + "|")
		}
	}
	formats := []string{all.String(),
		"{>X-Inj}|{>x-inj}|{>Cookie}|{>Referer}|{>}|{~sid}|{~}|{~a}|{?q}|{?}|{?x}|{label1}.{label2}.{label3}.{label9}|{hostonly}|{host}|{port}|{remote}|{server_port}",
		"{path}|{path_escaped}|{dir}|{file}|{uri}|{uri_escaped}|{query}|{query_escaped}|{fragment}|{rewrite_path}|{rewrite_uri_escaped}",
		"{>X-Inj}", "{~sid}", "{?q}", "{label2}", "{dir}{file}", "{user}"}
	hostile := []string{"", "a", "{status}", "{>X-Inj}", "}", "{", `\{`, `\`, "%", "%zz", "%00", "\x7f", "é", "\xff\xfe", "a=b=c", ";;", "=", "\"", "\"a", "a\"b\"",
		strings.Repeat("A", 300), strings.Repeat("{", 40), strings.Repeat("%7B", 30), "a,b", " lead", "tail ", "\t"}
	hosts := []string{"example.com", "a.b.c.d.e.f", ".", "..", "x..y", "", ":", ":80", "[::1]", "[::1]:443", "[", "]", "a:b:c", "host:99999999", strings.Repeat("l.", 60) + "z", "xn--é.test", "{host}"}
	paths := []string{"/", "//", "/a/b.txt", "/a/", "/%2F", "/%zz", "/a%00b", "/..;/x", "/\xff", "*", "/a#f", "/?", "/?&&=&%", "/?q", "/?q=%zz", "/?q=1&q=2", "/." + strings.Repeat("/a", 80), "/{path}", "/a b"}
	remotes := []string{"192.0.2.1:4000", "[2001:db8::1]:443", "nonsense", "", ":", "1.2.3.4", "[", "a:b:c"}
	emit := func(format string, host, target, inj, cookie, remote string) {
		hdr := []string{"Host", host}
		if inj != "" {
			hdr = append(hdr, "X-Inj", inj, "Referer", inj)
		}
		if cookie != "" {
			hdr = append(hdr, "Cookie", cookie)
		}
		method := "GET"
		if target == "*" {
			method = "OPTIONS"
		}
		c20Case(g, format, "-", c20Req{raw: c20Raw(method, target, "HTTP/1.1", hdr...), remote: remote, rewrite: "-", reqid: "-", mitm: "-", recorder: "-"})
	}
	for _, f := range formats[:3] {
		for _, h := range hosts {
			emit(f, h, "/a/b?q=1", "v", "sid=1", remotes[0])
		}
		for _, p := range paths {
			emit(f, "example.com", p, "v", "sid=1", remotes[0])
		}
		for _, v := range hostile {
			clean := strings.Map(func(c rune) rune {
				if c == '\r' || c == '\n' {
					return -1
				}
				return c
			}, v)
			emit(f, "example.com", "/?q="+clean, clean, "sid="+clean+"; "+clean+"; a="+clean, remotes[0])
		}
		for _, rm := range remotes {
			emit(f, "example.com", "/", "v", "", rm)
		}
	}
	n := 700
	if g.Thorough() {
		n = 30000
	}
	for i := 0; i < n; i++ {
		q := "/" + hx.Pick(r, []string{"", "a", "a/b.txt", "%7B", "{x}"}) + "?" + hx.Pick(r, []string{"q", "x", ""}) + "=" + hx.Pick(r, hostile)
		if r.Chance(1, 3) {
			q = hx.Pick(r, paths)
		}
		q = strings.Map(func(c rune) rune {
			if c == ' ' || c == '\t' || c == '\r' || c == '\n' {
				return '+'
			}
			return c
		}, q)
		emit(hx.Pick(r, formats), hx.Pick(r, hosts), q, strings.TrimSpace(hx.Pick(r, hostile)+hx.Pick(r, hostile)),
			hx.Pick(r, []string{"sid", "a", "", "{b}"})+"="+strings.ReplaceAll(hx.Pick(r, hostile), " ", "")+"; "+hx.Pick(r, hostile), hx.Pick(r, remotes))
	}
}

func init() {
	hx.Register(&hx.Stream{ID: "C19", Name: "c19.replacer", Gen: c19ReplacerGen, Eval: c20ReplaceEval})
}

// ---------------------------------------------------------------- c19.matches

// httpserver.Path(p).Matches(base): the matcher every path-scoped directive applies to the request
// path.  It has no index expression of its own (path.Clean, strings.HasPrefix/ToLower do the work);
// the model is slice C17's Limits.pathMatches.  Hostile paths: NUL and control bytes, dot segments,
// runs of slashes, very long paths; non-ASCII bytes only in case-sensitive mode (the model folds
// ASCII case only).
func init() {
	hx.Register(&hx.Stream{ID: "C19", Name: "c19.matches", Serial: true,
		Gen: func(g *hx.Gen) {
			r := g.Rng
			bases := []string{"/", "", "/a", "/a/", "/A/b", "a", "//a//", "/a/../b", "/.", "/..", "/a b", "/\x00", "/é"}
			atoms := []string{"/", "//", "a", "A", "b", ".", "..", "...", "\x00", "\x7f", " ", "%2e", "a/", "/..", "/./", strings.Repeat("/", 50), strings.Repeat("a", 300), strings.Repeat("../", 40)}
			emit := func(cs bool, p, b string) {
				ascii := true
				for i := 0; i < len(p+b); i++ {
					if (p + b)[i] >= 0x80 {
						ascii = false
					}
				}
				if !cs && !ascii {
					return
				}
				c := "0"
				if cs {
					c = "1"
				}
				g.Case(c, hx.HS(p), hx.HS(b))
			}
			// every path of up to 4 atoms from a small structural alphabet against every base
			small := []string{"/", "a", ".", "..", "A"}
			var rec func(p string, d int)
			rec = func(p string, d int) {
				for _, b := range bases {
					emit(false, p, b)
					emit(true, p, b)
				}
				if d < 4 {
					for _, a := range small {
						rec(p+a, d+1)
					}
				}
			}
			if g.Thorough() {
				rec("", 0)
			} else {
				rec("", 1)
			}
			n := 1500
			if g.Thorough() {
				n = 60000
			}
			for i := 0; i < n; i++ {
				var p strings.Builder
				for k := r.Intn(7); k > 0; k-- {
					p.WriteString(hx.Pick(r, atoms))
				}
				path := p.String()
				if r.Chance(1, 5) {
					b := []byte(path + "x")
					b[r.Intn(len(b))] = byte(r.Intn(256))
					path = string(b)
				}
				emit(r.Bool(), path, hx.Pick(r, bases))
			}
		},
		Eval: func(f []string) (string, []string) {
			prev := httpserver.CaseSensitivePath
			httpserver.CaseSensitivePath = f[0] == "1"
			defer func() { httpserver.CaseSensitivePath = prev }()
			p, b := hx.UnHS(f[1]), hx.UnHS(f[2])
			out := c19Guard(func() string {
				if httpserver.Path(p).Matches(b) {
					return "1"
				}
				return "0"
			})
			if b == "/" || b == "" {
				return out, c19Tags(out, "trivial-catch-all")
			}
			return out, c19Tags(out, "match="+out)
		}})
}
