//go:build c13

package streams

import (
	"bytes"
	"fmt"
	"io"
	"net"
	"net/http"
	"net/http/fcgi"
	"sort"
	"strconv"
	"strings"
	"sync"
	"time"

	"github.com/tmpim/casket/caskethttp/fastcgi"

	"verifharness/hx"
)

// c13.child: the real FCGIClient against Go's net/http/fcgi child over an in-memory connection.

type oneConnListener struct {
	ch   chan net.Conn
	once sync.Once
	done chan struct{}
}

func (l *oneConnListener) Accept() (net.Conn, error) {
	select {
	case c := <-l.ch:
		return c, nil
	case <-l.done:
		return nil, io.EOF
	}
}
func (l *oneConnListener) Close() error   { l.once.Do(func() { close(l.done) }); return nil }
func (l *oneConnListener) Addr() net.Addr { return c13Addr("pipe") }

type c13Addr string

func (a c13Addr) Network() string { return "pipe" }
func (a c13Addr) String() string  { return string(a) }

func c13ParseKVs(s string) [][2]string {
	var out [][2]string
	if s == "" {
		return out
	}
	for _, kv := range strings.Split(s, ";") {
		p := strings.SplitN(kv, "=", 2)
		out = append(out, [2]string{p[0], hx.UnHS(p[1])})
	}
	return out
}

func c13ShowKVs(m map[string]string) string {
	var keys []string
	for k := range m {
		keys = append(keys, k)
	}
	sort.Strings(keys)
	var out []string
	for _, k := range keys {
		out = append(out, hx.HS(k)+":"+hx.HS(m[k]))
	}
	return strings.Join(out, ",")
}

func c13ChildEval(f []string) (string, []string) {
	vars, hdrs, body := c13ParseKVs(f[0]), c13ParseKVs(f[1]), c13ParseBody(f[2])
	status, _ := strconv.Atoi(f[3])
	respBody := hx.UnH(f[4])
	base := map[string]string{
		"SERVER_PROTOCOL": "HTTP/1.1", "REQUEST_URI": "/s.php?q=1", "SCRIPT_NAME": "/s.php", "QUERY_STRING": "q=1",
		"HTTP_HOST": "example.test", "SERVER_NAME": "example.test", "SERVER_PORT": "80", "REMOTE_ADDR": "192.0.2.1", "REMOTE_PORT": "1",
	}
	env := map[string]string{}
	for k, v := range base {
		env[k] = v
	}
	for _, kv := range vars {
		env[kv[0]] = kv[1]
	}
	for _, kv := range hdrs {
		env[kv[0]] = kv[1]
	}

	var seenVars, seenHdrs map[string]string
	var seenBody []byte
	handler := http.HandlerFunc(func(w http.ResponseWriter, r *http.Request) {
		seenVars, seenHdrs = map[string]string{}, map[string]string{}
		pe := fcgi.ProcessEnv(r)
		for _, kv := range vars {
			if v, ok := pe[kv[0]]; ok {
				seenVars[kv[0]] = v
			}
		}
		for k, vs := range r.Header {
			if k == "Content-Length" || k == "Content-Type" {
				continue
			}
			seenHdrs[k] = strings.Join(vs, "|")
		}
		seenBody, _ = io.ReadAll(r.Body)
		w.Header().Set("Content-Type", "text/plain")
		w.Header().Set("X-Answer", "yes")
		w.WriteHeader(status)
		w.Write(respBody)
	})
	cli, srv := net.Pipe()
	ln := &oneConnListener{ch: make(chan net.Conn, 1), done: make(chan struct{})}
	ln.ch <- srv
	served := make(chan struct{})
	go func() { fcgi.Serve(ln, handler); close(served) }()
	cli.SetDeadline(time.Now().Add(20 * time.Second))

	out := c13Guard(func() string {
		c := fastcgi.VerifNewClient(cli, 1)
		resp, err := c.Post(env, "POST", "application/octet-stream", bytes.NewReader(body), int64(len(body)))
		if err != nil {
			return "err:" + err.Error()
		}
		got, err := io.ReadAll(resp.Body)
		if err != nil {
			return "err:body:" + err.Error()
		}
		if resp.Header.Get("X-Answer") != "yes" || resp.Header.Get("Content-Type") != "text/plain" {
			return "err:response headers lost"
		}
		return fmt.Sprintf("vars=%s;hdrs=%s;body=%s;st=%d;resp=%s", c13ShowKVs(seenVars), c13ShowKVs(seenHdrs), hx.H(seenBody), resp.StatusCode, hx.H(got))
	})
	cli.Close()
	ln.Close()
	select {
	case <-served:
	case <-time.After(5 * time.Second):
	}
	tags := []string{"vars=" + strconv.Itoa(min(len(vars), 3)), "hdrs=" + strconv.Itoa(min(len(hdrs), 3))}
	if len(body) > fastcgi.VerifMaxWrite {
		tags = append(tags, "several-stdin-records")
	}
	if len(respBody) > 8000 {
		tags = append(tags, "large-response")
	}
	return out, tags
}

func c13ChildGen(g *hx.Gen) {
	r := g.Rng
	mw := fastcgi.VerifMaxWrite
	val := func(n int) string { return hx.HS(c13Filler(r.Intn(26), n)) }
	varNames := []string{"X_CUSTOM", "APP_ENV", "DB_PASSWORD", "PHP_VALUE", "A"}
	hdrNames := []string{"HTTP_X_FOO", "HTTP_ACCEPT_LANGUAGE", "HTTP_X_A_B_C", "HTTP_COOKIE"}
	emit := func(vars, hdrs []string, body string, status int, rb []byte) {
		g.Case(strings.Join(vars, ";"), strings.Join(hdrs, ";"), body, strconv.Itoa(status), hx.H(rb))
	}
	// value lengths around 127/128 and up to what still fits one record
	for _, n := range []int{0, 1, 126, 127, 128, 129, 255, 256, 1000, 40000, mw - 8 - 8} {
		emit([]string{"X_CUSTOM=" + val(n)}, nil, "0:0", 200, []byte("ok"))
		emit(nil, []string{"HTTP_X_FOO=" + val(min(n, 60000))}, "3:1", 200, []byte("ok"))
	}
	// bodies around record boundaries, responses small and large
	for _, l := range []int{0, 1, 8, mw - 1, mw, mw + 1, 2 * mw, 2*mw + 1} {
		emit([]string{"APP_ENV=" + val(3)}, []string{"HTTP_X_FOO=" + val(5)}, fmt.Sprintf("%d:%d", l, r.Intn(26)), 200, []byte("ok"))
	}
	for _, l := range []int{0, 1, 4095, 4096, 8191, 8192, 65535, 65536, 70000, 200000} {
		emit(nil, nil, "2:2", hx.Pick(r, []int{200, 201, 404, 500}), []byte(c13Filler(l%26, l)))
	}
	n := 60
	if g.Thorough() {
		n = 1500
	}
	for i := 0; i < n; i++ {
		var vars, hdrs []string
		for _, nm := range varNames {
			if r.Chance(1, 3) {
				vars = append(vars, nm+"="+val(hx.Pick(r, []int{0, 1, 5, 127, 128, 300, 20000})))
			}
		}
		for _, nm := range hdrNames {
			if r.Chance(1, 3) {
				hdrs = append(hdrs, nm+"="+val(hx.Pick(r, []int{1, 5, 127, 128, 300})))
			}
		}
		emit(vars, hdrs, fmt.Sprintf("%d:%d", hx.Pick(r, []int{0, 3, 100, mw + r.Intn(5) - 2, 100000}), r.Intn(26)),
			hx.Pick(r, []int{200, 204, 302, 404, 503}), []byte(c13Filler(r.Intn(26), hx.Pick(r, []int{0, 2, 500, 9000}))))
	}
}

func init() {
	hx.Register(&hx.Stream{ID: "C13", Name: "c13.child", Gen: c13ChildGen, Eval: c13ChildEval})
}
