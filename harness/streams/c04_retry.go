//go:build c04

package streams

import (
	"bytes"
	"context"
	"errors"
	"io"
	"net/http"
	"net/http/httptest"
	"net/url"
	"strconv"
	"strings"

	"github.com/tmpim/casket/caskethttp/httpserver"
	"github.com/tmpim/casket/caskethttp/proxy"

	"verifharness/hx"
)

// c04.retry  (the 16 fields of c04.req) target2Parts target2String
//   two backends, policy first, retries on: the first backend fails after reading the body, the second answers.
//   out = <attempt 1 as in c04.req> TAB | TAB <attempt 2>
// What each of the two backend transports is handed is recorded at the moment of its RoundTrip.

type c04RetryRec struct {
	lines []string
}

// first call fails (after reading the body, or before touching it), later calls answer
type c04RetryTransport struct {
	fail   func(call int) bool
	unread bool
	want   []byte
	rec    *c04RetryRec
}

func (t *c04RetryTransport) RoundTrip(req *http.Request) (*http.Response, error) {
	call := len(t.rec.lines)
	failing := t.fail(call)
	body := "nobody"
	if req.Body != nil {
		if failing && t.unread {
			// the connection is refused: nothing is read (reported as the body it would have sent)
			body = "same"
		} else {
			b, err := io.ReadAll(req.Body)
			if err == nil && bytes.Equal(b, t.want) {
				body = "same"
			} else {
				body = "differs"
			}
		}
	}
	o := req
	t.rec.lines = append(t.rec.lines, strings.Join([]string{hx.HS(o.Method), hx.HS(o.URL.Scheme), hx.HS(o.URL.Host), hx.HS(o.URL.Path), hx.HS(o.URL.RawPath),
		hx.HS(o.URL.Opaque), hx.HS(o.URL.RawQuery), hx.HS(o.Host), c04ShowHeader(o.Header), strconv.FormatInt(o.ContentLength, 10), body}, "\t"))
	if failing {
		return nil, errors.New("scripted backend failure")
	}
	return &http.Response{StatusCode: 200, Proto: "HTTP/1.1", ProtoMajor: 1, ProtoMinor: 1, Header: http.Header{},
		Body: io.NopCloser(strings.NewReader("ok")), ContentLength: 2, Request: req}, nil
}

// the upstream block of a c04.retry case: one or two backends, the retry settings, rules, replacements, without
func c04RetryBlock(t1, t2, without string, rules []c04Entry, flags string, repls []c04Repl) ([]string, []blkLine, bool) {
	ruleFlags := ""
	if strings.Contains(flags, "transparent") {
		ruleFlags = "transparent"
	}
	ruleLines, ok := c04RuleLines("header_upstream", rules, ruleFlags)
	if !ok {
		return nil, nil, false
	}
	replLines, ok := c04ReplLines("header_upstream", repls)
	if !ok {
		return nil, nil, false
	}
	lines := []blkLine{{"", " policy first\n"}, {"", " max_fails 3\n"}, {"", " try_duration 5s\n"}, {"", " try_interval 1ms\n"}, {"", " fail_timeout 60s\n"}}
	lines = append(append(lines, ruleLines...), replLines...)
	if without != "" {
		lines = append(lines, blkLine{"", " without " + c04Tok(without) + "\n"})
	}
	backends := []string{t1}
	if !strings.Contains(flags, "single") {
		backends = append(backends, t2)
	}
	return backends, lines, true
}

func c04RetryEval(f []string) (string, []string) {
	if len(f) != 21 {
		return "bad-case", nil
	}
	method, path, rawpath, opaque, rawquery := hx.UnHS(f[0]), hx.UnHS(f[1]), hx.UnHS(f[2]), hx.UnHS(f[3]), hx.UnHS(f[4])
	host, remote := hx.UnHS(f[5]), hx.UnHS(f[6])
	hdrEntries := c04DecEntries(f[7])
	cl, err1 := strconv.ParseInt(f[8], 10, 64)
	bodyLen, err2 := strconv.Atoi(f[9])
	bodySeed, err3 := strconv.ParseUint(f[10], 10, 64)
	if err1 != nil || err2 != nil || err3 != nil {
		return "bad-case", nil
	}
	t1, without, t2 := hx.UnHS(f[12]), hx.UnHS(f[13]), hx.UnHS(f[19])
	rules := c04DecEntries(f[14])
	flags := f[15]
	single, unread := strings.Contains(flags, "single"), strings.Contains(flags, "unread")
	tu1, e1 := url.Parse(t1)
	tu2, e2 := url.Parse(t2)
	if e1 != nil || e2 != nil || c04URLParts(tu1) != f[11] || c04URLParts(tu2) != f[18] || c04Cred(tu1) != f[16] || c04Cred(tu2) != f[20] ||
		!c04TokOK(t1) || !c04TokOK(t2) || !c04TokOK(without) || (single && t1 != t2) {
		return "bad-case:target", nil
	}
	if single && bodyLen > 0 && !unread {
		// one backend: the body is not buffered, a retry after the body was read is C05's known finding, not C04's business
		return "bad-case:single backend, body read by the failing attempt", nil
	}
	repls, rok := c04DecRepls(f[17])
	if !rok {
		return "bad-case:repls", nil
	}
	backends, lines, ok := c04RetryBlock(t1, t2, without, rules, flags, repls)
	if !ok {
		return "bad-case:rules", nil
	}
	cfg, ok := blkWrite("proxy /", backends, lines, blkFlag(flags, "lay"))
	if !ok {
		return "bad-case:layout", nil
	}
	body := c04Body(bodyLen, bodySeed)
	up, msg := c04Upstream(cfg, nil)
	if up == nil {
		return msg, nil
	}
	defer up.Stop()
	hosts := proxy.VerifHosts(up)
	rec := &c04RetryRec{}
	if single {
		if len(hosts) != 1 {
			return "setup-error:hosts", nil
		}
		hosts[0].ReverseProxy.Transport = &c04RetryTransport{fail: func(call int) bool { return call == 0 }, unread: unread, want: body, rec: rec}
	} else {
		if len(hosts) != 2 {
			return "setup-error:hosts", nil
		}
		// max_fails 3 and policy first: the first backend is tried three times before the second one answers;
		// the first and the last attempt are reported
		hosts[0].ReverseProxy.Transport = &c04RetryTransport{fail: func(int) bool { return true }, unread: unread, want: body, rec: rec}
		hosts[1].ReverseProxy.Transport = &c04RetryTransport{fail: func(int) bool { return false }, want: body, rec: rec}
	}

	req := &http.Request{Method: method, URL: &url.URL{Path: path, RawPath: rawpath, Opaque: opaque, RawQuery: rawquery},
		Proto: "HTTP/1.1", ProtoMajor: 1, ProtoMinor: 1, Header: c04ToHeader(hdrEntries), Host: host, RemoteAddr: remote,
		ContentLength: cl, RequestURI: path}
	if bodyLen == 0 && cl == 0 {
		req.Body = http.NoBody
	} else {
		req.Body = io.NopCloser(bytes.NewReader(body))
	}
	if cl < 0 {
		req.TransferEncoding = []string{"chunked"}
	}
	req = req.WithContext(context.Background())
	p := proxy.Proxy{Next: httpserver.EmptyNext, Upstreams: []proxy.Upstream{up}}
	status, _ := p.ServeHTTP(httptest.NewRecorder(), req)
	want := 4
	if single {
		want = 2
	}
	if len(rec.lines) != want {
		return "not-retried:" + strconv.Itoa(status) + ":" + strconv.Itoa(len(rec.lines)), nil
	}
	// every failed attempt on the first backend must have been handed the same request
	for _, l := range rec.lines[1 : want-1] {
		if l != rec.lines[0] {
			return rec.lines[0] + "\t|\t" + l + "\tattempts-on-the-same-backend-differ", []string{"attempts-differ"}
		}
	}
	tags := []string{"retried"}
	if single {
		tags = append(tags, "single-backend")
	} else {
		tags = append(tags, "two-backends")
	}
	if len(rules) > 0 {
		tags = append(tags, "upstream-rules")
	}
	for _, e := range rules {
		if strings.HasPrefix(e.k, "+") {
			tags = append(tags, "add-rule")
			break
		}
	}
	if len(repls) > 0 {
		tags = append(tags, "upstream-replacements")
	}
	if tu1.User != nil || tu2.User != nil {
		tags = append(tags, "upstream-credentials")
	}
	if without != "" {
		tags = append(tags, "without")
	}
	if (tu1.Path != "" && tu1.Path != "/") || (tu2.Path != "" && tu2.Path != "/") {
		tags = append(tags, "base-path")
	}
	if tu1.RawQuery != "" || tu2.RawQuery != "" {
		tags = append(tags, "target-query")
	}
	if bodyLen > 0 {
		tags = append(tags, "body-resent")
	}
	tags = append(tags, c04LayoutTags(blkFlag(flags, "lay"), len(lines))...)
	return rec.lines[0] + "\t|\t" + rec.lines[want-1], tags
}

func c04RetryGen(g *hx.Gen) {
	r := g.Rng
	plain := []c04Entry{{"Accept", []string{"*/*"}}}
	// flags: "" two backends, the first fails after reading the body (three times: max_fails 3), the second answers;
	//        "unread" the failing attempts do not touch the body; "single" one backend that fails once, then answers
	// the layout of the upstream block of the cases emitted next: "" (backends on the directive line, fixed order of
	// the lines), "rand" = a seeded one (backends on `upstream` lines / mixed, lines shuffled)
	layout := ""
	emit := func(flags, method, reqTarget string, hdr []c04Entry, cl int64, n int, seed uint64, t1, t2, without string, rules []c04Entry, repls ...c04Repl) {
		p, rp, q, ok := c04ParseTarget(reqTarget)
		if !ok {
			return
		}
		if strings.Contains(flags, "single") {
			t2 = t1
			if n > 0 && !strings.Contains(flags, "unread") {
				flags += ",unread"
			}
		}
		if layout == "rand" {
			nb := 2
			if strings.Contains(flags, "single") {
				nb = 1
			}
			flags = blkWithFlag(flags, "lay", c04RandLayout(r, nb))
		}
		u1, e1 := url.Parse(t1)
		u2, e2 := url.Parse(t2)
		if e1 != nil || e2 != nil {
			return
		}
		g.Case(hx.HS(method), hx.HS(p), hx.HS(rp), "", hx.HS(q), hx.HS("front.test"), hx.HS("192.0.2.1:4000"), c04EncEntries(hdr),
			strconv.FormatInt(cl, 10), strconv.Itoa(n), strconv.FormatUint(seed, 10), c04URLParts(u1), hx.HS(t1), hx.HS(without),
			c04EncEntries(rules), flags, c04Cred(u1), c04EncRepls(repls), c04URLParts(u2), hx.HS(t2), c04Cred(u2))
	}
	modes := []string{"", "unread", "single", "single,unread"}
	// 1. exhaustive small scope: base paths x request paths x without, same base on both backends and different ones, every mode
	bases := []string{"", "/", "/base", "/base/", "/b%2Fx"}
	paths := []string{"/", "/a", "/api/x", "/api/api/x", "/base/a", "/a%2Fb"}
	withouts := []string{"", "/api", "/base"}
	for _, b1 := range bases {
		for _, b2 := range bases {
			if !g.Thorough() && b1 != b2 && (len(b1)+len(b2))%2 == 1 {
				continue
			}
			for pi, rp := range paths {
				for wi, wo := range withouts {
					for qi, q := range []string{"", "a=1"} {
						tq := ""
						if q != "" && len(rp)%2 == 0 {
							tq = "?t=1"
						}
						rt := rp
						if q != "" {
							rt += "?" + q
						}
						mode := modes[(pi+wi+qi+len(b1))%2] // two backends
						emit(mode, "POST", rt, plain, 10, 10, 3, "http://b1.test:8080"+b1+tq, "http://b2.test:8080"+b2+tq, wo, nil)
						if b1 == b2 {
							emit("single", "POST", rt, plain, 10, 10, 3, "http://b1.test:8080"+b1+tq, "", wo, nil)
						}
						// the same block written another way (more than four lines: sampled)
						if wo != "" && qi == 0 {
							layout = "rand"
							emit(mode, "POST", rt, plain, 10, 10, 3, "http://b1.test:8080"+b1+tq, "http://b2.test:8080"+b2+tq, wo, nil)
							if b1 == b2 {
								emit("single", "POST", rt, plain, 10, 10, 3, "http://b1.test:8080"+b1+tq, "", wo, nil)
							}
							layout = ""
						}
					}
				}
			}
		}
	}
	// 2. every kind of non-idempotent (and idempotent) header change x every mode x with/without a body:
	//    +rule, set rule, -rule, replacement, replacement on a rule's header, transparent, credentials of the backend URL(s)
	ruleSets := [][]c04Entry{
		nil,
		{{"+X-Tag", []string{"demo"}}},
		{{"+X-Tag", []string{"a", "b"}}, {"X-Set", []string{"s"}}},
		{{"-Accept", []string{""}}, {"+Accept-Encoding", []string{"gzip"}}},
		{{"Host", []string{"configured.test"}}},
	}
	replSets := [][]c04Repl{
		nil,
		{{"X-Via", [][2]string{{"edge", "edge-p"}}}},
		{{"x-via", [][2]string{{"e", "ee"}, {"d", "dd"}}}, {"Accept", [][2]string{{"/", "//"}}}},
		{{"X-Tag", [][2]string{{"demo", "demo2"}}}},
	}
	credSets := [][2]string{{"", ""}, {"user:pw@", "user:pw@"}, {"user:pw@", "other:secret@"}, {"user:pw@", ""}, {"", "other:secret@"}}
	hdrSets := [][]c04Entry{
		{{"Accept", []string{"*/*"}}, {"X-Via", []string{"edge"}}},
		{{"Accept", []string{"text/html", "*/*"}}, {"X-Via", []string{"edge", "second"}}, {"X-Tag", []string{"client"}}, {"Authorization", []string{"Bearer client"}}},
	}
	for mi, mode := range modes {
		for ri, rules := range ruleSets {
			for li, repls := range replSets {
				for ci, cred := range credSets {
					if !g.Thorough() && (ri+li+ci+mi)%2 == 1 && ci > 1 {
						continue
					}
					for hi, hdr := range hdrSets {
						n := 0
						if (ri+li+ci+hi)%2 == 0 {
							n = 1000
						}
						// body framing: known length, or unknown length (chunked upload)
						cl := int64(n)
						if n > 0 && (ri+ci+mi)%2 == 0 {
							cl = -1
						}
						emit(mode, "POST", "/api/x?a=1", hdr, cl, n, 5, "http://"+cred[0]+"b1.test:8080/base", "http://"+cred[1]+"b2.test:8080/base", "/api", rules, repls...)
					}
				}
			}
		}
	}
	for _, mode := range modes {
		for _, h := range []string{"front.test", "front.test:8443"} {
			g.Rng.U64()
			tr := append([]c04Entry{}, c04Transparent...)
			p, rp, q, _ := c04ParseTarget("/x")
			fl := "transparent"
			if mode != "" {
				fl += "," + mode
			}
			u1, _ := url.Parse("http://b1.test:8080")
			t2 := "http://b2.test:8080"
			if strings.Contains(mode, "single") {
				t2 = "http://b1.test:8080"
			}
			u2, _ := url.Parse(t2)
			g.Case(hx.HS("GET"), hx.HS(p), hx.HS(rp), "", hx.HS(q), hx.HS(h), hx.HS("192.0.2.1:4000"), c04EncEntries(plain),
				"0", "0", "0", c04URLParts(u1), hx.HS("http://b1.test:8080"), "", c04EncEntries(append(tr, c04Entry{"+X-Tag", []string{"t"}})), fl,
				"-", "", c04URLParts(u2), hx.HS(t2), "-")
		}
	}
	// 3. seeded random: rules x replacements x credentials x body sizes x modes
	names := append(append([]string{}, c04E2ENames...), "X-Forwarded-For", "Host")
	N := 600
	if g.Thorough() {
		N = 8000
	}
	for i := 0; i < N; i++ {
		b1 := hx.Pick(r, c04Bases)
		b2 := b1
		if r.Chance(1, 3) {
			b2 = hx.Pick(r, c04Bases)
		}
		tq := ""
		if r.Chance(1, 3) {
			tq = "?" + hx.Pick(r, c04TQueries[1:])
		}
		rt := hx.Pick(r, c04ReqPaths)
		if r.Chance(1, 2) {
			rt += "?" + hx.Pick(r, c04Queries)
		}
		rt = strings.ReplaceAll(rt, " ", "%20")
		n := 0
		cl := int64(0)
		if r.Chance(1, 2) {
			n = hx.Pick(r, []int{1, 100, 32 * 1024, 32*1024 + 1, 70000})
			cl = int64(n)
			if r.Chance(1, 3) {
				cl = -1
			}
		}
		c1, c2 := "", ""
		if r.Chance(1, 3) {
			c1 = hx.Pick(r, []string{"user:pw@", "u:@"})
		}
		if r.Chance(1, 3) {
			c2 = hx.Pick(r, []string{"user:pw@", "other:secret@"})
		}
		var repls []c04Repl
		if r.Chance(1, 2) {
			repls = c04RandRepls(r, names)
		}
		layout = ""
		if r.Chance(1, 2) {
			layout = "rand"
		}
		emit(hx.Pick(r, modes), hx.Pick(r, c04Methods), rt, c04RandHeader(r, c04E2ENames), cl, n, r.U64()%1000,
			"http://"+c1+"b1.test:8080"+b1+tq, "http://"+c2+"b2.test:8080"+b2+tq, hx.Pick(r, c04Withouts), c04RandRules(r, names), repls...)
	}
}

func init() {
	hx.Register(&hx.Stream{ID: "C04", Name: "c04.retry", Gen: c04RetryGen, Eval: c04RetryEval})
}
