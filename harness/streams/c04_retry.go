//go:build c04

package streams

import (
	"bytes"
	"context"
	"errors"
	"io"
	"net/http"
	"net/http/httptest"
	"net/url"
	"strconv"
	"strings"

	"github.com/tmpim/casket/caskethttp/httpserver"
	"github.com/tmpim/casket/caskethttp/proxy"

	"verifharness/hx"
)

// c04.retry  (the 16 fields of c04.req) target2Parts target2String
//   two backends, policy first, retries on: the first backend fails after reading the body, the second answers.
//   out = <attempt 1 as in c04.req> TAB | TAB <attempt 2>
// What each of the two backend transports is handed is recorded at the moment of its RoundTrip.

type c04RetryRec struct {
	line string
}

type c04RetryTransport struct {
	fail bool
	want []byte
	rec  *c04RetryRec
}

func (t *c04RetryTransport) RoundTrip(req *http.Request) (*http.Response, error) {
	body := "nobody"
	if req.Body != nil {
		b, err := io.ReadAll(req.Body)
		if err == nil && bytes.Equal(b, t.want) {
			body = "same"
		} else {
			body = "differs"
		}
	}
	o := req
	t.rec.line = strings.Join([]string{hx.HS(o.Method), hx.HS(o.URL.Scheme), hx.HS(o.URL.Host), hx.HS(o.URL.Path), hx.HS(o.URL.RawPath),
		hx.HS(o.URL.Opaque), hx.HS(o.URL.RawQuery), hx.HS(o.Host), c04ShowHeader(o.Header), strconv.FormatInt(o.ContentLength, 10), body}, "\t")
	if t.fail {
		return nil, errors.New("scripted backend failure")
	}
	return &http.Response{StatusCode: 200, Proto: "HTTP/1.1", ProtoMajor: 1, ProtoMinor: 1, Header: http.Header{},
		Body: io.NopCloser(strings.NewReader("ok")), ContentLength: 2, Request: req}, nil
}

func c04RetryEval(f []string) (string, []string) {
	if len(f) != 18 {
		return "bad-case", nil
	}
	method, path, rawpath, opaque, rawquery := hx.UnHS(f[0]), hx.UnHS(f[1]), hx.UnHS(f[2]), hx.UnHS(f[3]), hx.UnHS(f[4])
	host, remote := hx.UnHS(f[5]), hx.UnHS(f[6])
	hdrEntries := c04DecEntries(f[7])
	cl, err1 := strconv.ParseInt(f[8], 10, 64)
	bodyLen, err2 := strconv.Atoi(f[9])
	bodySeed, err3 := strconv.ParseUint(f[10], 10, 64)
	if err1 != nil || err2 != nil || err3 != nil {
		return "bad-case", nil
	}
	t1, without, t2 := hx.UnHS(f[12]), hx.UnHS(f[13]), hx.UnHS(f[17])
	rules := c04DecEntries(f[14])
	tu1, e1 := url.Parse(t1)
	tu2, e2 := url.Parse(t2)
	if e1 != nil || e2 != nil || c04URLParts(tu1) != f[11] || c04URLParts(tu2) != f[16] || !c04TokOK(t1) || !c04TokOK(t2) || !c04TokOK(without) {
		return "bad-case:target", nil
	}
	ruleLines, ok := c04RuleLines("header_upstream", rules, f[15])
	if !ok {
		return "bad-case:rules", nil
	}
	cfg := "proxy / " + t1 + " " + t2 + " {\n policy first\n try_duration 5s\n try_interval 1ms\n fail_timeout 60s\n" + ruleLines
	if without != "" {
		cfg += " without " + c04Tok(without) + "\n"
	}
	cfg += "}\n"
	body := c04Body(bodyLen, bodySeed)
	r1, r2 := &c04RetryRec{}, &c04RetryRec{}
	up, msg := c04Upstream(cfg, nil)
	if up == nil {
		return msg, nil
	}
	defer up.Stop()
	hosts := proxy.VerifHosts(up)
	if len(hosts) != 2 {
		return "setup-error:hosts", nil
	}
	hosts[0].ReverseProxy.Transport = &c04RetryTransport{fail: true, want: body, rec: r1}
	hosts[1].ReverseProxy.Transport = &c04RetryTransport{fail: false, want: body, rec: r2}

	req := &http.Request{Method: method, URL: &url.URL{Path: path, RawPath: rawpath, Opaque: opaque, RawQuery: rawquery},
		Proto: "HTTP/1.1", ProtoMajor: 1, ProtoMinor: 1, Header: c04ToHeader(hdrEntries), Host: host, RemoteAddr: remote,
		ContentLength: cl, RequestURI: path}
	if bodyLen == 0 && cl == 0 {
		req.Body = http.NoBody
	} else {
		req.Body = io.NopCloser(bytes.NewReader(body))
	}
	if cl < 0 {
		req.TransferEncoding = []string{"chunked"}
	}
	req = req.WithContext(context.Background())
	p := proxy.Proxy{Next: httpserver.EmptyNext, Upstreams: []proxy.Upstream{up}}
	status, _ := p.ServeHTTP(httptest.NewRecorder(), req)
	if r1.line == "" || r2.line == "" {
		return "not-retried:" + strconv.Itoa(status), nil
	}
	tags := []string{"retried"}
	if len(rules) > 0 {
		tags = append(tags, "upstream-rules")
	}
	for _, e := range rules {
		if strings.HasPrefix(e.k, "+") {
			tags = append(tags, "add-rule")
			break
		}
	}
	if without != "" {
		tags = append(tags, "without")
	}
	if (tu1.Path != "" && tu1.Path != "/") || (tu2.Path != "" && tu2.Path != "/") {
		tags = append(tags, "base-path")
	}
	if tu1.RawQuery != "" || tu2.RawQuery != "" {
		tags = append(tags, "target-query")
	}
	if bodyLen > 0 {
		tags = append(tags, "body-resent")
	}
	return r1.line + "\t|\t" + r2.line, tags
}

func c04RetryGen(g *hx.Gen) {
	r := g.Rng
	plain := []c04Entry{{"Accept", []string{"*/*"}}}
	emit := func(method, reqTarget string, hdr []c04Entry, cl int64, n int, seed uint64, t1, t2, without string, rules []c04Entry) {
		p, rp, q, ok := c04ParseTarget(reqTarget)
		if !ok {
			return
		}
		u1, e1 := url.Parse(t1)
		u2, e2 := url.Parse(t2)
		if e1 != nil || e2 != nil {
			return
		}
		g.Case(hx.HS(method), hx.HS(p), hx.HS(rp), "", hx.HS(q), hx.HS("front.test"), hx.HS("192.0.2.1:4000"), c04EncEntries(hdr),
			strconv.FormatInt(cl, 10), strconv.Itoa(n), strconv.FormatUint(seed, 10), c04URLParts(u1), hx.HS(t1), hx.HS(without),
			c04EncEntries(rules), "", c04URLParts(u2), hx.HS(t2))
	}
	// exhaustive small scope: base paths x request paths x without, same base on both backends and different ones
	bases := []string{"", "/", "/base", "/base/", "/b%2Fx"}
	paths := []string{"/", "/a", "/api/x", "/api/api/x", "/base/a", "/a%2Fb"}
	withouts := []string{"", "/api", "/base"}
	for _, b1 := range bases {
		for _, b2 := range bases {
			if !g.Thorough() && b1 != b2 && (len(b1)+len(b2))%2 == 1 {
				continue
			}
			for _, rp := range paths {
				for _, wo := range withouts {
					for _, q := range []string{"", "a=1"} {
						tq := ""
						if q != "" && len(rp)%2 == 0 {
							tq = "?t=1"
						}
						rt := rp
						if q != "" {
							rt += "?" + q
						}
						emit("POST", rt, plain, 10, 10, 3, "http://b1.test:8080"+b1+tq, "http://b2.test:8080"+b2+tq, wo, nil)
					}
				}
			}
		}
	}
	// rules x body sizes
	names := append(append([]string{}, c04E2ENames...), "X-Forwarded-For", "Host")
	N := 600
	if g.Thorough() {
		N = 8000
	}
	for i := 0; i < N; i++ {
		b1 := hx.Pick(r, c04Bases)
		b2 := b1
		if r.Chance(1, 3) {
			b2 = hx.Pick(r, c04Bases)
		}
		tq := ""
		if r.Chance(1, 3) {
			tq = "?" + hx.Pick(r, c04TQueries[1:])
		}
		rt := hx.Pick(r, c04ReqPaths)
		if r.Chance(1, 2) {
			rt += "?" + hx.Pick(r, c04Queries)
		}
		rt = strings.ReplaceAll(rt, " ", "%20")
		n := 0
		cl := int64(0)
		if r.Chance(1, 2) {
			n = hx.Pick(r, []int{1, 100, 32 * 1024, 32*1024 + 1, 70000})
			cl = int64(n)
			if r.Chance(1, 3) {
				cl = -1
			}
		}
		emit(hx.Pick(r, c04Methods), rt, c04RandHeader(r, c04E2ENames), cl, n, r.U64()%1000,
			"http://b1.test:8080"+b1+tq, "http://b2.test:8080"+b2+tq, hx.Pick(r, c04Withouts), c04RandRules(r, names))
	}
}

func init() {
	hx.Register(&hx.Stream{ID: "C04", Name: "c04.retry", Gen: c04RetryGen, Eval: c04RetryEval})
}
