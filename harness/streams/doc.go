// Package streams holds one file per property; each is selected by a build tag (c01 … c20).
package streams
