//go:build c19

package streams

import (
	"bufio"
	"context"
	"crypto/sha1"
	"encoding/base64"
	"net/http"
	"net/http/httptest"
	"os"
	"path/filepath"
	"strconv"
	"strings"
	"time"

	"github.com/tmpim/casket"
	"github.com/tmpim/casket/caskethttp/httpserver"

	"verifharness/hx"
)

// c19.authcfg: basicauth rules that reach a request THROUGH the directive's real setup
// (Casketfile text -> basicauth setup -> GetHtpasswdMatcher with its process-wide cache), over a
// HISTORY of loads of one site whose htpasswd file changes, keeps its stamp, or disappears between
// loads; after every accepted load the handler that load installed gets a request whose
// Authorization header names a user of the peer's choosing.  Model: lean/Casket/Model/AuthCfg.lean.
//
// fields: loads  = load;load;...   load = disk|users   disk = - | <stamp>:<u>.<p>,<u>.<p>,...
//                  (stamp = mtime*100 + number of lines: equal stamps <=> equal (mtime, size))
//                  users = <u>,<u>,...  the users of the `basicauth / u<i> htpasswd=ht` lines, in file order
//         auth   = - | <u>.<p>
// out = per load: refused | code=200 | code=401, joined by ';'   (PANIC:... if anything panicked)

func c19AuthLine(u, p int) string {
	sum := sha1.Sum([]byte("p" + strconv.Itoa(p)))
	return "u" + strconv.Itoa(u) + ":{SHA}" + base64.StdEncoding.EncodeToString(sum[:]) + "\n"
}

func c19AuthPairs(s string) ([][2]int, bool) {
	if s == "" {
		return nil, true
	}
	var out [][2]int
	for _, e := range strings.Split(s, ",") {
		up := strings.Split(e, ".")
		if len(up) != 2 {
			return nil, false
		}
		u, err1 := strconv.Atoi(up[0])
		p, err2 := strconv.Atoi(up[1])
		if err1 != nil || err2 != nil || u < 0 || u > 9 || p < 0 || p > 9 {
			return nil, false
		}
		out = append(out, [2]int{u, p})
	}
	return out, true
}

func c19AuthCfgEval(f []string) (string, []string) {
	tags := []string{}
	out := c19Guard(func() string {
		dir, err := os.MkdirTemp("", "c19auth")
		if err != nil {
			return "harness-error:" + err.Error()
		}
		defer os.RemoveAll(dir)
		file := filepath.Join(dir, "ht")
		var res []string
		accepted := false
		for _, load := range strings.Split(f[0], ";") {
			du := strings.Split(load, "|")
			if len(du) != 2 {
				return "bad-case"
			}
			if du[0] == "-" {
				os.Remove(file)
				tags = append(tags, "file-absent")
			} else {
				st := strings.SplitN(du[0], ":", 2)
				stamp, err := strconv.Atoi(st[0])
				if err != nil || len(st) != 2 {
					return "bad-case"
				}
				pairs, ok := c19AuthPairs(st[1])
				if !ok || stamp%100 != len(pairs) {
					return "bad-case"
				}
				var b strings.Builder
				for _, up := range pairs {
					b.WriteString(c19AuthLine(up[0], up[1]))
				}
				if err := os.WriteFile(file, []byte(b.String()), 0o600); err != nil {
					return "harness-error:" + err.Error()
				}
				t := time.Unix(1700000000+int64(stamp/100), 0)
				if err := os.Chtimes(file, t, t); err != nil {
					return "harness-error:" + err.Error()
				}
			}
			var cf strings.Builder
			if du[1] != "" {
				for _, u := range strings.Split(du[1], ",") {
					cf.WriteString("basicauth / u" + u + " htpasswd=ht\n")
				}
			}
			c := casket.NewTestController("http", cf.String())
			httpserver.GetConfig(c).Root = dir
			action, err := casket.DirectiveAction("http", "basicauth")
			if err != nil {
				return "harness-error:" + err.Error()
			}
			if err := action(c); err != nil {
				res = append(res, "refused")
				if strings.Contains(err.Error(), "not found") {
					tags = append(tags, "refused-user-missing")
				} else {
					tags = append(tags, "refused-other")
				}
				continue
			}
			accepted = true
			raw := "GET /x HTTP/1.1\r\nHost: example.test\r\n"
			if f[1] != "-" {
				up, ok := c19AuthPairs(f[1])
				if !ok || len(up) != 1 {
					return "bad-case"
				}
				raw += "Authorization: Basic " + base64.StdEncoding.EncodeToString([]byte("u"+strconv.Itoa(up[0][0])+":p"+strconv.Itoa(up[0][1]))) + "\r\n"
			}
			req, err := http.ReadRequest(bufio.NewReader(strings.NewReader(raw + "\r\n")))
			if err != nil {
				return "harness-error:" + err.Error()
			}
			req = req.WithContext(context.WithValue(req.Context(), httpserver.OriginalURLCtxKey, *req.URL))
			var h httpserver.Handler = httpserver.HandlerFunc(func(w http.ResponseWriter, r *http.Request) (int, error) { return 200, nil })
			mws := httpserver.GetConfig(c).Middleware()
			for i := len(mws) - 1; i >= 0; i-- {
				h = mws[i](h)
			}
			code, _ := h.ServeHTTP(httptest.NewRecorder(), req)
			res = append(res, "code="+strconv.Itoa(code))
			tags = append(tags, "code="+strconv.Itoa(code))
		}
		if !accepted {
			tags = append(tags, "trivial-no-load-accepted")
		}
		return strings.Join(res, ";")
	})
	return out, c19Tags(out, tags...)
}

func init() {
	hx.Register(&hx.Stream{ID: "C19", Name: "c19.authcfg",
		Gen: func(g *hx.Gen) {
			r := g.Rng
			auths := []string{"-", "0.0", "1.1", "1.2", "2.2", "3.0"}
			// the shapes by hand: a rule whose user is missing from a file another rule has already cached;
			// a user removed between two loads (stamp changed / unchanged); the file gone on a reload
			for _, a := range auths {
				g.Case("102:0.0,1.1|0,1", a)
				g.Case("101:0.0|0,1", a)
				g.Case("101:0.0|1,0", a)
				g.Case("102:0.0,1.1|0,1;201:0.0|0,1", a)
				g.Case("102:0.0,1.1|0,1;201:0.0|0;201:0.0|1", a)
				g.Case("102:0.0,1.1|0;102:0.0,2.2|1;102:0.0,2.2|2", a)
				g.Case("102:0.0,1.1|0,1;-|0,1;102:0.0,1.1|1", a)
				g.Case("103:0.0,1.1,1.2|1;-|;103:0.0,1.1,1.2|1,1,0", a)
			}
			n := 400
			if g.Thorough() {
				n = 20000
			}
			for i := 0; i < n; i++ {
				var loads []string
				mtime := 1
				for k := 1 + r.Intn(4); k > 0; k-- {
					disk := "-"
					if !r.Chance(1, 6) {
						if r.Chance(1, 2) {
							mtime += r.Intn(2)
						}
						var ls []string
						for j := r.Intn(4); j > 0; j-- {
							ls = append(ls, strconv.Itoa(r.Intn(4))+"."+strconv.Itoa(r.Intn(3)))
						}
						disk = strconv.Itoa(mtime*100+len(ls)) + ":" + strings.Join(ls, ",")
					}
					var us []string
					for j := r.Intn(4); j > 0; j-- {
						us = append(us, strconv.Itoa(r.Intn(4)))
					}
					loads = append(loads, disk+"|"+strings.Join(us, ","))
				}
				a := "-"
				if !r.Chance(1, 8) {
					a = strconv.Itoa(r.Intn(4)) + "." + strconv.Itoa(r.Intn(3))
				}
				g.Case(strings.Join(loads, ";"), a)
			}
		},
		Eval: c19AuthCfgEval})
}
