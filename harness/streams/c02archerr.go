//go:build c02

package streams

// c02.archerr: the error paths of Browse.ServeArchive on the real code (explored, not
// modelled; the clause judged is C12's "exactly one well-formed response, no panic escapes").
// On the unrepaired tree an archive that failed after its 200 header (a symbolic link or a
// socket in the directory, a file that delivers more bytes than its stat size) left the copy
// goroutine writing to the ResponseWriter after the handler had returned: the 500 page was
// appended to the 200 response and the next write panicked in that goroutine, which kills
// the process.  Because a panic in a foreign goroutine cannot be recovered, the site runs in
// a CHILD process (this binary, subcommand `eval`, stream c02.archerr.child); a dead child is
// reported as the answer CRASH.

import (
	"bufio"
	"bytes"
	"fmt"
	"io"
	"net"
	"net/http"
	"os"
	"os/exec"
	"path/filepath"
	"strings"
	"time"

	"github.com/tmpim/casket"

	"verifharness/hx"
)

func c02ArchErrChild(f []string) (string, []string) {
	if len(f) != 2 {
		return "bad-case", nil
	}
	kind, typ := f[0], f[1]
	fsSetup()
	T, err := os.MkdirTemp("", "verif-archerr-")
	if err != nil {
		return "setup-error", nil
	}
	defer os.RemoveAll(T)
	root := filepath.Join(T, "site")
	target := "/d/?archive=" + typ
	os.MkdirAll(filepath.Join(root, "d", "sub"), 0o755)
	big := bytes.Repeat([]byte("0123456789abcdef"), 12500) // 200 kB
	for i := 0; i < 20; i++ {
		os.WriteFile(filepath.Join(root, "d", fmt.Sprintf("f%02d.bin", i)), big, 0o644)
	}
	os.WriteFile(filepath.Join(root, "d", "sub", "x.txt"), []byte("x"), 0o644)
	switch kind {
	case "none":
	case "symlink":
		os.Symlink("f00.bin", filepath.Join(root, "d", "zlink"))
	case "dirlink":
		os.Symlink(T, filepath.Join(root, "d", "zup"))
	case "socket":
		l, err := net.Listen("unix", filepath.Join(root, "d", "zsock"))
		if err != nil {
			return "setup-error:socket", nil
		}
		defer l.Close()
	case "procfs":
		// files whose stat size (0) is smaller than what reading them delivers
		root, target = "/proc/sys/kernel", "/?archive="+typ
		if _, err := os.Stat(root); err != nil {
			return "alive clean", []string{"trivial-no-procfs"}
		}
	default:
		return "bad-case", nil
	}
	text := "http://fs.test:0 {\n\troot " + root + "\n\tbrowse / {\n\t\tservearchive\n\t}\n}\n"
	inst, err := casket.Start(casket.CasketfileInput{Filepath: filepath.Join(T, "Casketfile"), Contents: []byte(text), ServerTypeName: "http"})
	if err != nil {
		return "setup-error:start", nil
	}
	defer inst.Stop()
	addr := fmt.Sprintf("127.0.0.1:%d", inst.Servers()[0].Addr().(*net.TCPAddr).Port)
	get := func(t string) (int, []byte, error) {
		c, err := net.DialTimeout("tcp", addr, 5*time.Second)
		if err != nil {
			return 0, nil, err
		}
		defer c.Close()
		c.SetDeadline(time.Now().Add(20 * time.Second))
		fmt.Fprintf(c, "GET %s HTTP/1.1\r\nHost: fs.test\r\nConnection: close\r\n\r\n", t)
		resp, err := http.ReadResponse(bufio.NewReader(c), nil)
		if err != nil {
			return 0, nil, err
		}
		defer resp.Body.Close()
		b, err := io.ReadAll(resp.Body)
		return resp.StatusCode, b, err
	}
	verdict := "clean"
	for i := 0; i < 4; i++ {
		st, body, err := get(target)
		switch {
		case err != nil:
			verdict = "malformed" // e.g. "invalid byte in chunk length": a second response inside the first
		case st != 200:
			verdict = fmt.Sprintf("status%d", st)
		case bytes.Contains(body, []byte("Internal Server Error")):
			verdict = "mixed"
		}
		time.Sleep(30 * time.Millisecond)
	}
	if kind != "procfs" {
		if st, body, err := get("/d/f00.bin"); err != nil || st != 200 || len(body) != len(big) {
			verdict = "dead"
		}
	}
	return "alive " + verdict, []string{"kind=" + kind, "type=" + typ}
}

func c02ArchErrEval(f []string) (string, []string) {
	if len(f) != 2 {
		return "bad-case", nil
	}
	cmd := exec.Command(os.Args[0], "eval")
	cmd.Stdin = strings.NewReader("c02.archerr.child\t" + f[0] + "\t" + f[1] + "\n")
	var out bytes.Buffer
	cmd.Stdout = &out
	cmd.Stderr = io.Discard
	err := cmd.Run()
	line := strings.TrimSpace(out.String())
	if i := strings.LastIndexByte(line, '\n'); i >= 0 {
		line = line[i+1:]
	}
	if err != nil || !strings.HasPrefix(line, "alive ") {
		return "CRASH", []string{"kind=" + f[0], "crash"}
	}
	return line, []string{"kind=" + f[0], "type=" + f[1]}
}

func init() {
	hx.Register(&hx.Stream{ID: "C02", Name: "c02.archerr",
		Gen: func(g *hx.Gen) {
			for _, k := range []string{"none", "symlink", "dirlink", "socket", "procfs"} {
				for _, t := range []string{"tar", "zip", "tar.gz"} {
					g.Case(k, t)
				}
			}
		},
		Eval: c02ArchErrEval})
	// reachable through `vharness eval` only (its ID is not a property id)
	hx.Register(&hx.Stream{ID: "C02-child", Name: "c02.archerr.child", Gen: func(g *hx.Gen) {}, Eval: c02ArchErrChild})
}
