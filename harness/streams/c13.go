//go:build c13

package streams

import (
	"bytes"
	"fmt"
	"io"
	"strconv"
	"strings"

	"github.com/tmpim/casket/caskethttp/fastcgi"

	"verifharness/hx"
)

// Streams of C13; see lean/Driver/C13.lean for the formats.

func c13Guard(f func() string) (out string) {
	defer func() {
		if r := recover(); r != nil {
			msg := fmt.Sprint(r)
			switch {
			case strings.Contains(msg, "index out of range"):
				out = "PANIC:index"
			case strings.Contains(msg, "slice bounds out of range"):
				out = "PANIC:slice"
			default:
				out = "PANIC:other:" + strings.SplitN(msg, "\n", 2)[0]
			}
		}
	}()
	return f()
}

// ---------------------------------------------------------------- c13.wire

func c13ParsePairs(s string) (names []string, m map[string]string) {
	m = map[string]string{}
	if s == "" {
		return
	}
	for i, it := range strings.Split(s, ",") {
		var k, v string
		if strings.HasPrefix(it, "x") {
			kv := strings.SplitN(it[1:], "=", 2)
			k, v = hx.UnHS(kv[0]), hx.UnHS(kv[1])
		} else {
			p := strings.Split(it, ":")
			kl, _ := strconv.Atoi(p[0])
			vl, _ := strconv.Atoi(p[1])
			sd, _ := strconv.Atoi(p[2])
			if kl > 0 {
				k = string(rune('0'+i)) + c13Filler(sd, kl-1)
			}
			v = c13Filler(sd+7, vl)
		}
		names = append(names, k)
		m[k] = v
	}
	return
}

func c13ParseBody(s string) []byte {
	if strings.HasPrefix(s, "x") {
		return hx.UnH(s[1:])
	}
	p := strings.Split(s, ":")
	l, _ := strconv.Atoi(p[0])
	sd, _ := strconv.Atoi(p[1])
	return []byte(c13Filler(sd, l))
}

// plainReader hides WriteTo and hands out at most chunk bytes per Read.
type plainReader struct {
	b     []byte
	chunk int
}

func (r *plainReader) Read(p []byte) (int, error) {
	if len(r.b) == 0 {
		return 0, io.EOF
	}
	n := r.chunk
	if n > len(p) {
		n = len(p)
	}
	if n > len(r.b) {
		n = len(r.b)
	}
	copy(p, r.b[:n])
	r.b = r.b[n:]
	return n, nil
}

func c13BodyReader(body []byte, rk string) io.Reader {
	switch {
	case rk == "n":
		return nil
	case rk == "w":
		return bytes.NewReader(body)
	default:
		c, _ := strconv.Atoi(rk[1:])
		if c < 1 {
			c = 1
		}
		return &plainReader{append([]byte(nil), body...), c}
	}
}

// c13Do runs the real FCGIClient.Do until the Go map happened to be iterated in the listed
// order (a map has no order; the model is given the order as a list).
func c13Do(id uint16, names []string, m map[string]string, body []byte, rk string) (wire []byte, tries int, err error) {
	for tries = 1; tries <= 2000; tries++ {
		rwc := &fcgiRWC{r: bytes.NewReader(nil)}
		c := fastcgi.VerifNewClient(rwc, id)
		// a fresh map per try: iteration order of a given map value may be sticky
		mm := make(map[string]string, len(m))
		for _, k := range names {
			mm[k] = m[k]
		}
		if _, err = c.Do(mm, c13BodyReader(body, rk)); err != nil {
			return nil, tries, err
		}
		wire = rwc.wrote.Bytes()
		if len(m) < 2 || c13OrderIs(wire, names) {
			return wire, tries, nil
		}
	}
	return nil, tries, fmt.Errorf("map order not reached")
}

// c13OrderIs: the names appear on the wire in the listed order (skipped names ignored).
func c13OrderIs(wire []byte, names []string) bool {
	recs, ok := fcgiSplit(wire)
	if !ok {
		return true // leave it to the judge
	}
	var stream []byte
	for _, r := range recs {
		if r.typ == 4 {
			stream = append(stream, r.content...)
		}
	}
	pairs, ok := fcgiPairs(stream)
	if !ok {
		return true
	}
	i := 0
	for _, p := range pairs {
		for i < len(names) && names[i] != p[0] {
			i++
		}
		if i == len(names) {
			return false
		}
		i++
	}
	return true
}

func c13WireGen(g *hx.Gen) {
	r := g.Rng
	mw := fastcgi.VerifMaxWrite
	emit := func(id int, pairs []string, body string, rk string) {
		g.Case(strconv.Itoa(id), strings.Join(pairs, ","), body, rk)
	}
	// 1. one pair, name and value lengths around the 127/128 switch of encodeSize (exhaustive square)
	edge := []int{0, 1, 2, 126, 127, 128, 129, 255, 256}
	for _, k := range edge {
		for _, v := range edge {
			emit(1, []string{fmt.Sprintf("%d:%d:%d", k, v, r.Intn(26))}, "0:0", "n")
		}
	}
	// 2. one pair around the single-record limit 8+k+v = 65500 and the padding residues
	for _, k := range []int{1, 5, 127, 128, 300} {
		for d := -9; d <= 9; d++ {
			emit(1, []string{fmt.Sprintf("%d:%d:%d", k, mw-8-k+d, r.Intn(26))}, "0:0", "n")
		}
	}
	for _, v := range []int{0, 1, 127, 128} {
		for d := -9; d <= 2; d++ {
			emit(1, []string{fmt.Sprintf("%d:%d:%d", mw-8-v+d, v, r.Intn(26))}, "0:0", "n")
		}
	}
	// 3. two or three pairs whose encodings add up to around the flush threshold
	sizes := []int{mw - 20, mw - 12, mw - 11, mw - 10, mw - 9, mw - 8, mw / 2, mw/2 - 4, mw/2 - 5, mw/2 - 6, 1, 10, 120, 127, 128, 200}
	n := 40
	if g.Thorough() {
		n = 600
	}
	for i := 0; i < n; i++ {
		cnt := 2 + r.Intn(2)
		var ps []string
		for j := 0; j < cnt; j++ {
			tot := hx.Pick(r, sizes) + r.Intn(5) - 2
			if tot < 2 {
				tot = 2
			}
			k := 1 + r.Intn(min(tot-1, 300))
			if r.Chance(1, 5) {
				k = min(tot-1, hx.Pick(r, []int{127, 128, 129}))
			}
			ps = append(ps, fmt.Sprintf("%d:%d:%d", k, tot-k, r.Intn(26)))
		}
		emit(1+r.Intn(3), ps, "0:0", "n")
	}
	// 4. many small pairs with arbitrary bytes (exhaustive over a tiny alphabet for 1 and 2 pairs)
	small := []string{"", "00", "41", "ff", "4142", "80"}
	for _, k := range small {
		for _, v := range small {
			emit(1, []string{"x" + k + "=" + v}, "x", "n")
			if k != "" {
				emit(1, []string{"x" + k + "=" + v, "x=" + k}, "x4142", "w")
			}
		}
	}
	for i := 0; i < n*5; i++ {
		cnt := r.Intn(9)
		var ps []string
		seen := map[string]bool{}
		for j := 0; j < cnt; j++ {
			k := make([]byte, r.Intn(5))
			for x := range k {
				k[x] = byte(r.Intn(256))
			}
			if seen[string(k)] {
				continue
			}
			seen[string(k)] = true
			v := make([]byte, hx.Pick(r, []int{0, 1, 3, 130}))
			for x := range v {
				v[x] = byte(r.Intn(256))
			}
			ps = append(ps, "x"+hx.H(k)+"="+hx.H(v))
		}
		rk := hx.Pick(r, []string{"w", "r1", "r7", "n"})
		body := fmt.Sprintf("%d:%d", r.Intn(40), r.Intn(26))
		if rk == "n" { // Do(p, nil): no body reader at all
			body = "0:0"
		}
		emit(1+r.Intn(65535), ps, body, rk)
	}
	// 5. bodies around the record boundaries, every way of reading them
	for _, l := range []int{0, 1, 7, 8, 9, mw - 1, mw, mw + 1, 2*mw - 1, 2 * mw, 2*mw + 1} {
		for _, rk := range []string{"w", "r1000000", "r4096", "r" + strconv.Itoa(mw), "r" + strconv.Itoa(mw-1), "r333"} {
			emit(1, []string{"3:4:1"}, fmt.Sprintf("%d:%d", l, r.Intn(26)), rk)
		}
	}
	for i := 0; i < n/2; i++ {
		l := hx.Pick(r, []int{mw, 2 * mw, 3 * mw}) + r.Intn(17) - 8
		emit(1+r.Intn(9), nil, fmt.Sprintf("%d:%d", l, r.Intn(26)), "r"+strconv.Itoa(1+r.Intn(70000)))
	}
	// 6. pairs that do not fit a record (value truncated, name too long) next to ones that do
	for _, big := range []string{fmt.Sprintf("10:%d:3", mw), fmt.Sprintf("%d:5:3", mw-7), fmt.Sprintf("%d:0:3", mw+100), fmt.Sprintf("300:%d:1", 2*mw)} {
		emit(1, []string{big}, "5:1", "w")
		emit(1, []string{"4:4:1", big}, "5:1", "w")
		emit(1, []string{big, "4:4:1"}, "5:1", "w")
	}
}

func init() {
	hx.Register(&hx.Stream{ID: "C13", Name: "c13.wire", Gen: c13WireGen,
		Eval: func(f []string) (string, []string) {
			id, _ := strconv.Atoi(f[0])
			names, m := c13ParsePairs(f[1])
			body := c13ParseBody(f[2])
			tries := 0
			out := c13Guard(func() string {
				wire, t, err := c13Do(uint16(id), names, m, body, f[3])
				tries = t
				if err != nil {
					return "err:" + err.Error()
				}
				return hx.H(wire)
			})
			tags := []string{"pairs=" + strconv.Itoa(min(len(names), 4))}
			tot, fit := 0, true
			for _, k := range names {
				tot += 8 + len(k) + len(m[k])
				if 8+len(k)+len(m[k]) > fastcgi.VerifMaxWrite {
					fit = false
				}
			}
			switch {
			case !fit:
				tags = append(tags, "does-not-fit")
			case tot > fastcgi.VerifMaxWrite:
				tags = append(tags, "several-param-records")
			case len(body) > fastcgi.VerifMaxWrite:
				tags = append(tags, "several-stdin-records")
			case len(names) == 0 && len(body) == 0:
				tags = []string{"trivial-empty"}
			}
			if tries > 1 {
				tags = append(tags, "map-order-retried")
			}
			if strings.HasPrefix(out, "PANIC") {
				tags = append(tags, "panic")
			}
			return out, tags
		}})
}
