//go:build c13

package streams

import (
	"bytes"
	"fmt"
	"io"
	"strconv"
	"strings"

	"github.com/tmpim/casket/caskethttp/fastcgi"

	"verifharness/hx"
)

// Streams of C13; see lean/Driver/C13.lean for the formats.

func c13Guard(f func() string) (out string) {
	defer func() {
		if r := recover(); r != nil {
			msg := fmt.Sprint(r)
			switch {
			case strings.Contains(msg, "index out of range"):
				out = "PANIC:index"
			case strings.Contains(msg, "slice bounds out of range"):
				out = "PANIC:slice"
			default:
				out = "PANIC:other:" + strings.SplitN(msg, "\n", 2)[0]
			}
		}
	}()
	return f()
}

// ---------------------------------------------------------------- c13.wire

func c13ParsePairs(s string) (names []string, m map[string]string) {
	m = map[string]string{}
	if s == "" {
		return
	}
	for i, it := range strings.Split(s, ",") {
		var k, v string
		if strings.HasPrefix(it, "x") {
			kv := strings.SplitN(it[1:], "=", 2)
			k, v = hx.UnHS(kv[0]), hx.UnHS(kv[1])
		} else {
			p := strings.Split(it, ":")
			kl, _ := strconv.Atoi(p[0])
			vl, _ := strconv.Atoi(p[1])
			sd, _ := strconv.Atoi(p[2])
			if kl > 0 {
				k = string(rune('0'+i)) + c13Filler(sd, kl-1)
			}
			v = c13Filler(sd+7, vl)
		}
		names = append(names, k)
		m[k] = v
	}
	return
}

func c13ParseBody(s string) []byte {
	if strings.HasPrefix(s, "x") {
		return hx.UnH(s[1:])
	}
	p := strings.Split(s, ":")
	l, _ := strconv.Atoi(p[0])
	sd, _ := strconv.Atoi(p[1])
	return []byte(c13Filler(sd, l))
}

// plainReader hides WriteTo and hands out at most chunk bytes per Read.
type plainReader struct {
	b     []byte
	chunk int
}

func (r *plainReader) Read(p []byte) (int, error) {
	if len(r.b) == 0 {
		return 0, io.EOF
	}
	n := r.chunk
	if n > len(p) {
		n = len(p)
	}
	if n > len(r.b) {
		n = len(r.b)
	}
	copy(p, r.b[:n])
	r.b = r.b[n:]
	return n, nil
}

func c13BodyReader(body []byte, rk string) io.Reader {
	switch {
	case rk == "n":
		return nil
	case rk == "w":
		return bytes.NewReader(body)
	default:
		c, _ := strconv.Atoi(rk[1:])
		if c < 1 {
			c = 1
		}
		return &plainReader{append([]byte(nil), body...), c}
	}
}

// c13Do runs the real FCGIClient.Do until the Go map happened to be iterated in the listed
// order (a map has no order; the model is given the order as a list).
func c13Do(id uint16, names []string, m map[string]string, body []byte, rk string) (wire []byte, tries int, err error) {
	for tries = 1; tries <= 2000; tries++ {
		rwc := &fcgiRWC{r: bytes.NewReader(nil)}
		c := fastcgi.VerifNewClient(rwc, id)
		// a fresh map per try: iteration order of a given map value may be sticky
		mm := make(map[string]string, len(m))
		for _, k := range names {
			mm[k] = m[k]
		}
		if _, err = c.Do(mm, c13BodyReader(body, rk)); err != nil {
			return nil, tries, err
		}
		wire = rwc.wrote.Bytes()
		if len(m) < 2 || c13OrderIs(wire, names) {
			return wire, tries, nil
		}
	}
	return nil, tries, fmt.Errorf("map order not reached")
}

// c13OrderIs: the names appear on the wire in the listed order (skipped names ignored).
func c13OrderIs(wire []byte, names []string) bool {
	recs, ok := fcgiSplit(wire)
	if !ok {
		return true // leave it to the judge
	}
	var stream []byte
	for _, r := range recs {
		if r.typ == 4 {
			stream = append(stream, r.content...)
		}
	}
	pairs, ok := fcgiPairs(stream)
	if !ok {
		return true
	}
	i := 0
	for _, p := range pairs {
		for i < len(names) && names[i] != p[0] {
			i++
		}
		if i == len(names) {
			return false
		}
		i++
	}
	return true
}

func c13WireGen(g *hx.Gen) {
	r := g.Rng
	mw := fastcgi.VerifMaxWrite
	emit := func(id int, pairs []string, body string, rk string) {
		g.Case(strconv.Itoa(id), strings.Join(pairs, ","), body, rk)
	}
	// 1. one pair, name and value lengths around the 127/128 switch of encodeSize (exhaustive square)
	edge := []int{0, 1, 2, 126, 127, 128, 129, 255, 256}
	for _, k := range edge {
		for _, v := range edge {
			emit(1, []string{fmt.Sprintf("%d:%d:%d", k, v, r.Intn(26))}, "0:0", "n")
		}
	}
	// 2. one pair around the single-record limit 8+k+v = 65500 and the padding residues
	for _, k := range []int{1, 5, 127, 128, 300} {
		for d := -9; d <= 9; d++ {
			emit(1, []string{fmt.Sprintf("%d:%d:%d", k, mw-8-k+d, r.Intn(26))}, "0:0", "n")
		}
	}
	for _, v := range []int{0, 1, 127, 128} {
		for d := -9; d <= 2; d++ {
			emit(1, []string{fmt.Sprintf("%d:%d:%d", mw-8-v+d, v, r.Intn(26))}, "0:0", "n")
		}
	}
	// 3. two or three pairs whose encodings add up to around the flush threshold
	sizes := []int{mw - 20, mw - 12, mw - 11, mw - 10, mw - 9, mw - 8, mw / 2, mw/2 - 4, mw/2 - 5, mw/2 - 6, 1, 10, 120, 127, 128, 200}
	n := 40
	if g.Thorough() {
		n = 600
	}
	for i := 0; i < n; i++ {
		cnt := 2 + r.Intn(2)
		var ps []string
		for j := 0; j < cnt; j++ {
			tot := hx.Pick(r, sizes) + r.Intn(5) - 2
			if tot < 2 {
				tot = 2
			}
			k := 1 + r.Intn(min(tot-1, 300))
			if r.Chance(1, 5) {
				k = min(tot-1, hx.Pick(r, []int{127, 128, 129}))
			}
			ps = append(ps, fmt.Sprintf("%d:%d:%d", k, tot-k, r.Intn(26)))
		}
		emit(1+r.Intn(3), ps, "0:0", "n")
	}
	// 4. many small pairs with arbitrary bytes (exhaustive over a tiny alphabet for 1 and 2 pairs)
	small := []string{"", "00", "41", "ff", "4142", "80"}
	for _, k := range small {
		for _, v := range small {
			emit(1, []string{"x" + k + "=" + v}, "x", "n")
			if k != "" {
				emit(1, []string{"x" + k + "=" + v, "x=" + k}, "x4142", "w")
			}
		}
	}
	for i := 0; i < n*5; i++ {
		cnt := r.Intn(9)
		var ps []string
		seen := map[string]bool{}
		for j := 0; j < cnt; j++ {
			k := make([]byte, r.Intn(5))
			for x := range k {
				k[x] = byte(r.Intn(256))
			}
			if seen[string(k)] {
				continue
			}
			seen[string(k)] = true
			v := make([]byte, hx.Pick(r, []int{0, 1, 3, 130}))
			for x := range v {
				v[x] = byte(r.Intn(256))
			}
			ps = append(ps, "x"+hx.H(k)+"="+hx.H(v))
		}
		rk := hx.Pick(r, []string{"w", "r1", "r7", "n"})
		body := fmt.Sprintf("%d:%d", r.Intn(40), r.Intn(26))
		if rk == "n" { // Do(p, nil): no body reader at all
			body = "0:0"
		}
		emit(1+r.Intn(65535), ps, body, rk)
	}
	// 5. bodies around the record boundaries, every way of reading them
	for _, l := range []int{0, 1, 7, 8, 9, mw - 1, mw, mw + 1, 2*mw - 1, 2 * mw, 2*mw + 1} {
		for _, rk := range []string{"w", "r1000000", "r4096", "r" + strconv.Itoa(mw), "r" + strconv.Itoa(mw-1), "r333"} {
			emit(1, []string{"3:4:1"}, fmt.Sprintf("%d:%d", l, r.Intn(26)), rk)
		}
	}
	for i := 0; i < n/2; i++ {
		l := hx.Pick(r, []int{mw, 2 * mw, 3 * mw}) + r.Intn(17) - 8
		emit(1+r.Intn(9), nil, fmt.Sprintf("%d:%d", l, r.Intn(26)), "r"+strconv.Itoa(200+r.Intn(70000)))
	}
	// 6. pairs that do not fit a record (value truncated, name too long) next to ones that do
	for _, big := range []string{fmt.Sprintf("10:%d:3", mw), fmt.Sprintf("%d:5:3", mw-7), fmt.Sprintf("%d:0:3", mw+100), fmt.Sprintf("300:%d:1", 2*mw)} {
		emit(1, []string{big}, "5:1", "w")
		emit(1, []string{"4:4:1", big}, "5:1", "w")
		emit(1, []string{big, "4:4:1"}, "5:1", "w")
	}
}

func init() {
	// the deterministic lock-step streams first: they report before the parallel ones
	c13RegisterOverlap()
	c13RegisterWOverlap()
	hx.Register(&hx.Stream{ID: "C13", Name: "c13.wire", Gen: c13WireGen,
		Eval: func(f []string) (string, []string) {
			id, _ := strconv.Atoi(f[0])
			names, m := c13ParsePairs(f[1])
			body := c13ParseBody(f[2])
			tries := 0
			out := c13Guard(func() string {
				wire, t, err := c13Do(uint16(id), names, m, body, f[3])
				tries = t
				if err != nil {
					return "err:" + err.Error()
				}
				return hx.H(wire)
			})
			tags := []string{"pairs=" + strconv.Itoa(min(len(names), 4))}
			tot, fit := 0, true
			for _, k := range names {
				tot += 8 + len(k) + len(m[k])
				if 8+len(k)+len(m[k]) > fastcgi.VerifMaxWrite {
					fit = false
				}
			}
			switch {
			case !fit:
				tags = append(tags, "does-not-fit")
			case tot > fastcgi.VerifMaxWrite:
				tags = append(tags, "several-param-records")
			case len(body) > fastcgi.VerifMaxWrite:
				tags = append(tags, "several-stdin-records")
			case len(names) == 0 && len(body) == 0:
				tags = []string{"trivial-empty"}
			}
			if tries > 1 {
				tags = append(tags, "map-order-retried")
			}
			if strings.HasPrefix(out, "PANIC") {
				tags = append(tags, "panic")
			}
			return out, tags
		}})
}

// ---------------------------------------------------------------- c13.demux

// c13Frame cuts the responder's stdout and stderr into records in a random conforming way:
// any record sizes, any padding, any interleaving, empty stderr terminator or not.
func c13Frame(r *hx.Rng, id uint16, stdout, stderr []byte, style int) []byte {
	var raw []byte
	pad := func() int {
		switch style % 4 {
		case 0:
			return 0
		case 1:
			return r.Intn(8)
		case 2:
			return hx.Pick(r, []int{0, 1, 7, 8, 255})
		}
		return r.Intn(256)
	}
	chunk := func(n int) int {
		if n == 0 {
			return 0
		}
		switch (style / 4) % 4 {
		case 0:
			return n // everything at once
		case 1:
			return 1 // byte by byte
		case 2:
			return 1 + r.Intn(min(n, 5))
		}
		return 1 + r.Intn(n)
	}
	for len(stdout) > 0 || len(stderr) > 0 {
		if len(stderr) > 0 && (len(stdout) == 0 || r.Chance(1, 3)) {
			k := chunk(len(stderr))
			raw = append(raw, fcgiRec(7, id, stderr[:k], pad())...)
			stderr = stderr[k:]
			continue
		}
		k := chunk(len(stdout))
		raw = append(raw, fcgiRec(6, id, stdout[:k], pad())...)
		stdout = stdout[k:]
	}
	if r.Chance(1, 2) {
		raw = append(raw, fcgiRec(7, id, nil, pad())...)
	}
	raw = append(raw, fcgiRec(6, id, nil, pad())...)
	return append(raw, fcgiRec(3, id, []byte{0, 0, 0, 0, 0, 0, 0, 0}, 0)...)
}

func c13ShowResp(c *fastcgi.FCGIClient, raw []byte) string {
	resp, err := c.Request(map[string]string{}, nil)
	if err != nil {
		if _, ok := err.(*strconv.NumError); ok {
			return "err:status"
		}
		return "err:" + err.Error()
	}
	body, berr := io.ReadAll(resp.Body)
	fin := "eof"
	switch {
	case berr == io.ErrUnexpectedEOF:
		fin = "ueof"
	case berr != nil && strings.Contains(berr.Error(), "invalid header version"):
		fin = "badver"
	case berr != nil:
		fin = "other:" + berr.Error()
	}
	var keys []string
	for k := range resp.Header {
		keys = append(keys, k)
	}
	sortStrings(keys)
	var hs []string
	for _, k := range keys {
		for _, v := range resp.Header[k] {
			hs = append(hs, hx.HS(k)+":"+hx.HS(v))
		}
	}
	return fmt.Sprintf("st=%d;tx=%s;h=%s;body=%s;fin=%s;stderr=%s", resp.StatusCode, hx.HS(resp.Status),
		strings.Join(hs, ","), hx.H(body), fin, hx.H(c.VerifStderr()))
}

func sortStrings(s []string) {
	for i := 1; i < len(s); i++ {
		for j := i; j > 0 && s[j] < s[j-1]; j-- {
			s[j], s[j-1] = s[j-1], s[j]
		}
	}
}

func c13DemuxGen(g *hx.Gen) {
	r := g.Rng
	headerLines := []string{"Content-Type: text/html", "content-type: text/plain; charset=utf-8", "X-Powered-By: PHP/8", "x-a-b: 1", "Set-Cookie: a=b", "Set-Cookie: c=d; Path=/",
		"Location: /next", "X-Empty:", "X-Sp:   padded  ", "Content-Length: 3", "STATUS-X: no", "a: b"}
	statusLines := []string{"", "", "Status: 200 OK", "Status: 404 Not Found", "Status: 500", "status: 302 Found", "Status: 201  Two  Spaces", "Status:", "Status: 099 x", "STATUS: 403 Forbidden"}
	bodies := []string{"", "x", "hello\n", "\r\n\r\n", "Status: 500\r\n\r\n", "a\x00b\xff", strings.Repeat("0123456789", 30)}
	mk := func() []byte {
		var b strings.Builder
		nl := hx.Pick(r, []string{"\r\n", "\r\n", "\n"})
		st := hx.Pick(r, statusLines)
		lines := []string{}
		for k := r.Intn(4); k > 0; k-- {
			lines = append(lines, hx.Pick(r, headerLines))
		}
		if st != "" {
			i := r.Intn(len(lines) + 1)
			lines = append(lines[:i:i], append([]string{st}, lines[i:]...)...)
		}
		for _, l := range lines {
			b.WriteString(l + nl)
		}
		b.WriteString(nl)
		b.WriteString(hx.Pick(r, bodies))
		return []byte(b.String())
	}
	stderrs := []string{"", "", "PHP Warning: x\n", "e", strings.Repeat("E", 70)}
	// every framing style for a fixed small response
	fixed := []byte("Status: 404 Not Found\r\nContent-Type: text/plain\r\n\r\nnot here")
	for style := 0; style < 16; style++ {
		for _, se := range []string{"", "warn\n"} {
			g.Case(hx.H(fixed), hx.HS(se), hx.H(c13Frame(r, 1, fixed, []byte(se), style)))
		}
	}
	// long runs of consecutive stderr records (a script logging one notice per record) before any
	// stdout, inside a header line, at a header line end and in the body; a bufio.Reader in front of
	// the stream gives up after 100 reads without progress.  Also runs of empty stdout records, below
	// that limit (each of them does cost the reader one empty read).
	for where := 0; where < 4; where++ {
		for _, k := range c13BurstSizes {
			so, se, raw := c13Burst(where, k, 7)
			g.Case(hx.H(so), hx.H(se), hx.H(raw))
		}
		for _, k := range []int{1, 2, 40} {
			so, se, raw := c13Burst(where, k, 6)
			g.Case(hx.H(so), hx.H(se), hx.H(raw))
		}
	}
	n := 700
	if g.Thorough() {
		n = 20000
	}
	for i := 0; i < n; i++ {
		out, se := mk(), []byte(hx.Pick(r, stderrs))
		g.Case(hx.H(out), hx.H(se), hx.H(c13Frame(r, 1, out, se, r.Intn(16))))
	}
	// large bodies: records of the maximum size, and a body spanning many records
	big := append([]byte("Content-Type: a/b\r\n\r\n"), []byte(c13Filler(3, 70000))...)
	var raw []byte
	rest := big
	for len(rest) > 0 {
		k := min(len(rest), 65535)
		raw = append(raw, fcgiRec(6, 1, rest[:k], 255)...)
		rest = rest[k:]
	}
	raw = append(raw, fcgiRec(6, 1, nil, 0)...)
	raw = append(raw, fcgiRec(3, 1, make([]byte, 8), 0)...)
	g.Case(hx.H(big), "", hx.H(raw))
}

func init() {
	hx.Register(&hx.Stream{ID: "C13", Name: "c13.demux", Gen: c13DemuxGen,
		Eval: func(f []string) (string, []string) {
			raw := hx.UnH(f[2])
			out := c13Guard(func() string {
				c := fastcgi.VerifNewClient(&fcgiRWC{r: bytes.NewReader(raw)}, 1)
				return c13ShowResp(c, raw)
			})
			recs, _ := fcgiSplit(raw)
			nOut, nErr := 0, 0
			for _, rc := range recs {
				if rc.typ == 6 && len(rc.content) > 0 {
					nOut++
				}
				if rc.typ == 7 && len(rc.content) > 0 {
					nErr++
				}
			}
			tags := []string{}
			switch {
			case nOut > 1 && nErr > 0:
				tags = append(tags, "split-stdout+stderr")
			case nOut > 1:
				tags = append(tags, "split-stdout")
			case nErr > 0:
				tags = append(tags, "stderr")
			default:
				tags = append(tags, "single-record")
			}
			if strings.Contains(strings.ToLower(hx.UnHS(f[0])), "status:") {
				tags = append(tags, "status-header")
			}
			if strings.HasPrefix(out, "PANIC") {
				tags = append(tags, "panic")
			}
			return out, tags
		}})
}
