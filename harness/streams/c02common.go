//go:build c02 || c03

package streams

// Plumbing shared by the C02 and C03 streams: fixture trees on disk (every regular
// file carries the unique token @@<inode number of the fixture>@@), casket sites
// started through casket.Start on a loopback listener, raw requests on TCP sockets,
// and the canonical rendering of a response (status / Location / which tokens the
// decoded body carries / listing names / archive entries).

import (
	"archive/tar"
	"archive/zip"
	"bufio"
	"bytes"
	"compress/gzip"
	"encoding/json"
	"fmt"
	"html"
	"io"
	"log"
	"net"
	"net/http"
	"os"
	"path/filepath"
	"regexp"
	"sort"
	"strconv"
	"strings"
	"sync"
	"time"

	"github.com/tmpim/casket"
	_ "github.com/tmpim/casket/caskethttp"

	"verifharness/hx"
)

type fsEntry struct {
	path  string
	isDir bool
	ino   int
}

type fsFixture struct {
	entries []fsEntry
	next    int
}

func newFixture() *fsFixture { return &fsFixture{next: 1} }

func (fx *fsFixture) has(p string) bool {
	for _, e := range fx.entries {
		if e.path == p {
			return true
		}
	}
	return false
}
func (fx *fsFixture) add(p string, isDir bool) {
	if fx.has(p) {
		return
	}
	fx.entries = append(fx.entries, fsEntry{p, isDir, fx.next})
	fx.next++
}
func (fx *fsFixture) dir(p string)  { fx.add(p, true) }
func (fx *fsFixture) file(p string) { fx.add(p, false) }
func (fx *fsFixture) link(p, target string) {
	for _, e := range fx.entries {
		if e.path == target && !e.isDir {
			fx.entries = append(fx.entries, fsEntry{p, false, e.ino})
			return
		}
	}
}

// text is the `fs` case field: one line per entry, "<d|f><ino> <path>".
func (fx *fsFixture) text() string {
	lines := make([]string, len(fx.entries))
	for i, e := range fx.entries {
		k := "f"
		if e.isDir {
			k = "d"
		}
		lines[i] = fmt.Sprintf("%s%d %s", k, e.ino, e.path)
	}
	return strings.Join(lines, "\n")
}

func parseFixture(text string) (*fsFixture, error) {
	fx := newFixture()
	if text == "" {
		return fx, nil
	}
	for _, l := range strings.Split(text, "\n") {
		sp := strings.IndexByte(l, ' ')
		if sp < 2 || (l[0] != 'd' && l[0] != 'f') {
			return nil, fmt.Errorf("bad fixture line %q", l)
		}
		ino, err := strconv.Atoi(l[1:sp])
		if err != nil {
			return nil, err
		}
		fx.entries = append(fx.entries, fsEntry{l[sp+1:], l[0] == 'd', ino})
	}
	return fx, nil
}

// fsMount: a fixture whose paths start with this element is MOUNTED at the harness's temp
// directory T (fixture path /MNT/x = real path T/x, /MNT = T itself): the model's "/" is then the
// real top of the file system, so that `root /` and roots above the fixture can be site roots.
// Requests, browse scopes and Location headers are translated by the stream (c02.sites).
const fsMount = "/MNT"

// fsRealPath: where the fixture path p lives on disk.
func fsRealPath(T, p string) string {
	if p == fsMount || strings.HasPrefix(p, fsMount+"/") {
		return filepath.Join(T, filepath.FromSlash(p[len(fsMount):]))
	}
	return filepath.Join(T, filepath.FromSlash(p))
}

func fsToken(ino int) string { return fmt.Sprintf("@@%d@@", ino) }

// fsContent is the content of the regular fixture file with this inode number: its token,
// `ino` bytes of padding, a newline (so sizes are pairwise distinct); its mtime is
// fsBaseTime + 100*ino seconds (Model/Cond.lean: fileSize, fileMtime).
func fsContent(ino int) string { return fsToken(ino) + strings.Repeat("x", ino) + "\n" }

const fsBaseTime = 1600000000

var fsTokenRe = regexp.MustCompile(`@@(\d+)@@`)
var fsHTMLNameRe = regexp.MustCompile(`(?s)<span class="name">(.*?)</span>`)

// materialise writes the fixture below T. The file at casketfilePath (if any) gets
// casketfileText (which carries the token of that entry in a comment).
func (fx *fsFixture) materialise(T, casketfilePath, casketfileText string) error {
	first := map[int]string{}
	for _, e := range fx.entries {
		full := fsRealPath(T, e.path)
		if e.isDir {
			if err := os.MkdirAll(full, 0o755); err != nil {
				return err
			}
			continue
		}
		if err := os.MkdirAll(filepath.Dir(full), 0o755); err != nil {
			return err
		}
		if prev, ok := first[e.ino]; ok {
			if err := os.Link(prev, full); err != nil {
				return err
			}
			continue
		}
		first[e.ino] = full
		content := fsContent(e.ino)
		if e.path == casketfilePath {
			content = "# " + fsToken(e.ino) + "\n" + casketfileText
			// keep sizes distinct: a size identifies one inode (Content-Length, Content-Range)
			for used := true; used; {
				used = false
				for _, o := range fx.entries {
					if !o.isDir && o.ino != e.ino && len(fsContent(o.ino)) == len(content) {
						used = true
					}
				}
				if used {
					content += "#\n"
				}
			}
		}
		if err := os.WriteFile(full, []byte(content), 0o644); err != nil {
			return err
		}
		mt := time.Unix(fsBaseTime+100*int64(e.ino), 0)
		if err := os.Chtimes(full, mt, mt); err != nil {
			return err
		}
	}
	return nil
}

// fsCasketfileText renders the site's Casketfile.
//
//	browse: "scope|type,type;scope|…"   index: comma separated   extra: verbatim directives
func fsCasketfileText(T, root, prefix, browse, index, extra string) string {
	var b strings.Builder
	fmt.Fprintf(&b, "http://fs.test:0%s {\n", prefix)
	fmt.Fprintf(&b, "\troot %s%s\n", T, root)
	if index != "" {
		fmt.Fprintf(&b, "\tindex %s\n", strings.Join(strings.Split(index, ","), " "))
	}
	if browse != "" {
		for _, item := range strings.Split(browse, ";") {
			scope, types, _ := strings.Cut(item, "|")
			if types == "" {
				fmt.Fprintf(&b, "\tbrowse %s\n", scope)
			} else {
				fmt.Fprintf(&b, "\tbrowse %s {\n\t\tservearchive %s\n\t}\n", scope, strings.Join(strings.Split(types, ","), " "))
			}
		}
	}
	b.WriteString(extra)
	b.WriteString("}\n")
	return b.String()
}

// ---------------------------------------------------------------------------
// HOW a server block is written (c02.sites, c03.addrs): the same meaning in many spellings.
// ---------------------------------------------------------------------------

// style bits of a block; the models never look at them
const (
	stRootSlash   = 1 << iota // root written with a trailing slash
	stRootDetour              // root written <root>/../<its last element>
	stRootQuoted              // root in double quotes
	stRootLast                // the root line is the last line of the block
	stAddrLines               // one address per line (comma + newline) instead of one line
	stHostUpper               // host names in upper case
	stIndexLines              // one `index` line per index page
	stRootDecoy               // an earlier `root` line naming another directory (the last one counts)
	stComments                // comment lines, blank lines, spaces instead of tabs
	stBrowsePath              // browse scope given by `path` inside the browse block
	stShuffle                 // the directives of the block in another order (directives of the same kind keep theirs)
	stBlockForm               // directives with a one-line and a block form are written as blocks (c03: basicauth)
	stAll         = 1<<iota - 1
)

const stBits = 12

var stNames = []string{"root-slash", "root-detour", "root-quoted", "root-last", "addr-lines", "host-upper", "index-lines", "root-decoy", "comments", "browse-path", "shuffle", "block-form"}

// fsBlockSpec is one server block: what it means and (style) how it is written.
type fsBlockSpec struct {
	hosts  []string // "x.test" is written http://x.test:0, any other name (localhost, 127.0.0.1) name:0
	root   string   // fixture path
	// absRoot, when set, is what the root line names instead of T+root (mounted fixtures: "/" itself,
	// or the real path of a fixture directory)
	absRoot string
	prefix string
	browse string   // "scope|type,type;scope|…"
	index  string   // comma separated
	extra  []string // further directives, each complete (with its block, if any) and newline-terminated
	style  int
}

func fsAddrText(host, prefix string, style int) string {
	h := host
	if style&stHostUpper != 0 {
		h = strings.ToUpper(h)
	}
	if strings.HasSuffix(host, ".test") {
		return "http://" + h + ":0" + prefix
	}
	return h + ":0" + prefix
}

func fsBlockText(T string, b fsBlockSpec) string {
	var items []string
	root := T + b.root
	if b.absRoot != "" {
		root = b.absRoot
	}
	if b.style&stRootDetour != 0 {
		if b.absRoot != "" {
			root += "/../" + filepath.Base(b.absRoot) // "/" + "/../" + "/" for the top of the file system
		} else {
			root += "/../" + filepath.Base(b.root)
		}
	}
	if b.style&stRootSlash != 0 {
		root += "/"
	}
	if b.style&stRootQuoted != 0 {
		root = `"` + root + `"`
	}
	rootItem := "\troot " + root + "\n"
	if b.style&stRootDecoy != 0 {
		items = append(items, "\troot "+T+"/decoy\n")
	}
	if b.style&stRootLast == 0 {
		items = append(items, rootItem)
	}
	if b.index != "" {
		names := strings.Split(b.index, ",")
		if b.style&stIndexLines != 0 {
			for _, n := range names {
				items = append(items, "\tindex "+n+"\n")
			}
		} else {
			items = append(items, "\tindex "+strings.Join(names, " ")+"\n")
		}
	}
	if b.browse != "" {
		for _, item := range strings.Split(b.browse, ";") {
			scope, types, _ := strings.Cut(item, "|")
			arch := ""
			if types != "" {
				arch = "\t\tservearchive " + strings.Join(strings.Split(types, ","), " ") + "\n"
			}
			switch {
			case b.style&stBrowsePath != 0:
				items = append(items, "\tbrowse {\n"+arch+"\t\tpath "+scope+"\n\t}\n")
			case types == "":
				items = append(items, "\tbrowse "+scope+"\n")
			default:
				items = append(items, "\tbrowse "+scope+" {\n"+arch+"\t}\n")
			}
		}
	}
	items = append(items, b.extra...)
	if b.style&stShuffle != 0 {
		// a random interleaving that keeps the order among directives of the same kind
		r := hx.NewRng(uint64(b.style))
		var kinds []string
		byKind := map[string][]string{}
		for _, it := range items {
			k := strings.Fields(it)[0]
			if _, ok := byKind[k]; !ok {
				kinds = append(kinds, k)
			}
			byKind[k] = append(byKind[k], it)
		}
		items = items[:0:0]
		for len(kinds) > 0 {
			i := r.Intn(len(kinds))
			k := kinds[i]
			items = append(items, byKind[k][0])
			byKind[k] = byKind[k][1:]
			if len(byKind[k]) == 0 {
				kinds = append(kinds[:i], kinds[i+1:]...)
			}
		}
	}
	if b.style&stRootLast != 0 {
		items = append(items, rootItem)
	}
	var sb strings.Builder
	addrs := make([]string, len(b.hosts))
	for i, h := range b.hosts {
		addrs[i] = fsAddrText(h, b.prefix, b.style)
	}
	sep := ", "
	if b.style&stAddrLines != 0 {
		sep = ",\n"
	}
	sb.WriteString(strings.Join(addrs, sep) + " {\n")
	for i, it := range items {
		if b.style&stComments != 0 {
			it = strings.ReplaceAll(it, "\t", "    ")
			if i%2 == 0 {
				sb.WriteString("\n    # a comment { with braces }\n")
			}
		}
		sb.WriteString(it)
	}
	sb.WriteString("}\n")
	return sb.String()
}

type fsSite struct {
	fx   *fsFixture
	id   *fsIdent
	T    string
	inst *casket.Instance
	addr string
	err  error
	// the Casketfile the site was started from: fixture path and text
	cfPath, cfText string
}

var (
	fsMu    sync.Mutex
	fsSites = map[string]*fsSite{}
)

func fsSetup() error {
	casket.Quiet = true
	log.SetOutput(io.Discard)
	return nil
}

func fsTeardown() {
	fsMu.Lock()
	defer fsMu.Unlock()
	for k, s := range fsSites {
		if s.inst != nil {
			s.inst.Stop()
		}
		if s.T != "" {
			os.RemoveAll(s.T)
		}
		delete(fsSites, k)
	}
}

// fsSiteFor returns the running site for the key fields
// (fs, root, casketfile, prefix, …): fields[0] = fixture text, fields[2] = Casketfile path.
func fsSiteFor(keyFields []string, casketfileText func(T string) (string, error)) (*fsSite, error) {
	key := strings.Join(keyFields, "\t")
	fsMu.Lock()
	defer fsMu.Unlock()
	if s, ok := fsSites[key]; ok {
		return s, s.err
	}
	s := fsStartSite(keyFields, casketfileText)
	fsSites[key] = s
	return s, s.err
}

// fsFreshSite starts a site of its own for one case (a case that changes the fixture while
// the site runs); the caller stops it with fsStopSite.  Starts and stops are serialised with
// those of fsSiteFor.
func fsFreshSite(keyFields []string, casketfileText func(T string) (string, error)) (*fsSite, error) {
	fsMu.Lock()
	defer fsMu.Unlock()
	s := fsStartSite(keyFields, casketfileText)
	return s, s.err
}

func fsStopSite(s *fsSite) {
	fsMu.Lock()
	defer fsMu.Unlock()
	if s.inst != nil {
		s.inst.Stop()
		s.inst = nil
	}
	if s.T != "" {
		os.RemoveAll(s.T)
	}
}

// fsStartSite materialises the fixture in a new temp dir and starts the site (s.err on failure).
func fsStartSite(keyFields []string, casketfileText func(T string) (string, error)) *fsSite {
	s := &fsSite{}
	fail := func(err error) *fsSite {
		s.err = err
		return s
	}
	fx, err := parseFixture(hx.UnHS(keyFields[0]))
	if err != nil {
		return fail(err)
	}
	T, err := os.MkdirTemp("", "verif-fs-")
	if err != nil {
		return fail(err)
	}
	if T, err = filepath.EvalSymlinks(T); err != nil {
		return fail(err)
	}
	s.T = T
	s.fx = fx
	text, err := casketfileText(T)
	if err != nil {
		return fail(err)
	}
	cf := hx.UnHS(keyFields[2])
	s.cfPath, s.cfText = cf, text
	if err := fx.materialise(T, cf, text); err != nil {
		return fail(err)
	}
	inst, err := casket.Start(casket.CasketfileInput{Filepath: fsRealPath(T, cf), Contents: []byte(text), ServerTypeName: "http"})
	if err != nil {
		return fail(fmt.Errorf("casket.Start: %v", err))
	}
	s.inst = inst
	if len(inst.Servers()) == 0 || inst.Servers()[0].Addr() == nil {
		return fail(fmt.Errorf("no listener"))
	}
	s.addr = fmt.Sprintf("127.0.0.1:%d", inst.Servers()[0].Addr().(*net.TCPAddr).Port)
	return s
}

// fetch writes one raw request and returns the parsed response with its body.
func (s *fsSite) fetch(method, target, extraHeaders string) (*http.Response, []byte, error, error) {
	return s.fetchHost("fs.test", method, target, extraHeaders)
}

func (s *fsSite) fetchHost(host, method, target, extraHeaders string) (*http.Response, []byte, error, error) {
	c, err := net.DialTimeout("tcp", s.addr, 5*time.Second)
	if err != nil {
		return nil, nil, nil, err
	}
	defer c.Close()
	c.SetDeadline(time.Now().Add(20 * time.Second))
	fmt.Fprintf(c, "%s %s HTTP/1.1\r\nHost: %s\r\n%sConnection: close\r\n\r\n", method, target, host, extraHeaders)
	resp, err := http.ReadResponse(bufio.NewReader(c), &http.Request{Method: method})
	if err != nil {
		return nil, nil, nil, err
	}
	defer resp.Body.Close()
	body, rerr := io.ReadAll(resp.Body)
	return resp, body, rerr, nil
}

// roundTrip writes one raw request and renders the response canonically.
// kind is a short classification for the coverage histogram.
func (s *fsSite) roundTrip(method, target, extraHeaders string) (out, kind string) {
	return s.roundTripOpt(method, target, extraHeaders, true)
}

// headEnc=false: a 200 to HEAD is rendered without its Content-Encoding (a site with the gzip
// directive announces gzip for any body it would compress).
func (s *fsSite) roundTripOpt(method, target, extraHeaders string, headEnc bool) (out, kind string) {
	return s.roundTripHost("fs.test", method, target, extraHeaders, headEnc)
}

// roundTripHost: the same with the Host header of one of several sites of the instance.
func (s *fsSite) roundTripHost(host, method, target, extraHeaders string, headEnc bool) (out, kind string) {
	c, err := net.DialTimeout("tcp", s.addr, 5*time.Second)
	if err != nil {
		return "io-error:dial", "io-error"
	}
	defer c.Close()
	c.SetDeadline(time.Now().Add(20 * time.Second))
	fmt.Fprintf(c, "%s %s HTTP/1.1\r\nHost: %s\r\n%sConnection: close\r\n\r\n", method, target, host, extraHeaders)
	resp, err := http.ReadResponse(bufio.NewReader(c), &http.Request{Method: method})
	if err != nil {
		return "io-error:" + strings.SplitN(err.Error(), ":", 2)[0], "io-error"
	}
	defer resp.Body.Close()
	body, rerr := io.ReadAll(resp.Body)
	return fsRender(method, resp, body, rerr, headEnc)
}

func fsTokens(b []byte) []string {
	seen := map[string]bool{}
	var out []string
	for _, m := range fsTokenRe.FindAllSubmatch(b, -1) {
		if !seen[string(m[1])] {
			seen[string(m[1])] = true
			out = append(out, string(m[1]))
		}
	}
	sort.Strings(out)
	return out
}

func fsRender(method string, resp *http.Response, body []byte, rerr error, headEnc bool) (string, string) {
	st := resp.StatusCode
	ce := resp.Header.Get("Content-Encoding")
	if ce == "" {
		ce = "-"
	}
	// a body compressed on the fly (gzip directive) is decoded before looking for tokens
	decoded := body
	// the bytes of an archive: a site with the gzip directive compresses the whole response for a
	// client that accepts gzip (Content-Encoding: gzip) — also a zip, a tar, and a tar.gz once more
	archiveBody := body
	if len(body) > 2 && body[0] == 0x1f && body[1] == 0x8b {
		if zr, err := gzip.NewReader(bytes.NewReader(body)); err == nil {
			if d, err := io.ReadAll(zr); err == nil {
				decoded = d
				if ce == "gzip" {
					ce = "-" // compressed on the fly by the gzip directive, not a precompressed sibling
					archiveBody = d
				}
			}
		}
	}
	if st >= 300 && st < 400 {
		return fmt.Sprintf("R%d\t%s", st, hx.HS(resp.Header.Get("Location"))), fmt.Sprintf("R%d", st)
	}
	if strings.EqualFold(method, "HEAD") {
		if st == 200 {
			if !headEnc {
				ce = "-"
			}
			return "H200\t" + ce, "H200"
		}
		return fmt.Sprintf("S%d", st), fmt.Sprintf("S%d", st)
	}
	isArchive := strings.HasPrefix(resp.Header.Get("Content-Disposition"), "attachment")
	if st == 200 && isArchive {
		items, err := fsArchiveItems(resp.Header.Get("Content-Type"), archiveBody)
		if err != nil {
			return "A\t?" + err.Error(), "archive-broken"
		}
		sort.Strings(items)
		return "A\t" + strings.Join(items, ","), "archive"
	}
	toks := fsTokens(decoded)
	if len(toks) > 0 || rerr != nil {
		t := strings.Join(toks, "+")
		if t == "" {
			t = "-"
		}
		if st != 200 {
			return fmt.Sprintf("F!%d\t%s\t%s", st, ce, t), "file-in-error"
		}
		if rerr != nil {
			return fmt.Sprintf("F!truncated\t%s\t%s", ce, t), "file-truncated"
		}
		return "F\t" + ce + "\t" + t, "file"
	}
	if st == 200 && strings.HasPrefix(resp.Header.Get("Content-Type"), "application/json") {
		var items []struct{ Name string }
		if err := json.Unmarshal(decoded, &items); err == nil {
			names := make([]string, len(items))
			for i, it := range items {
				names[i] = hx.HS(it.Name)
			}
			sort.Strings(names)
			return "L\t" + strings.Join(names, ","), "listing"
		}
	}
	if st == 200 && strings.HasPrefix(resp.Header.Get("Content-Type"), "text/html") && bytes.Contains(decoded, []byte(`<div class="listing">`)) {
		var names []string
		for _, m := range fsHTMLNameRe.FindAllSubmatch(decoded, -1) {
			names = append(names, hx.HS(html.UnescapeString(string(m[1]))))
		}
		sort.Strings(names)
		return "L\t" + strings.Join(names, ","), "listing-html"
	}
	if st == 200 {
		return "F\t" + ce + "\t-", "empty-200"
	}
	return fmt.Sprintf("S%d", st), fmt.Sprintf("S%d", st)
}

func fsArchiveItems(contentType string, body []byte) ([]string, error) {
	var items []string
	add := func(name string, isDir bool, content []byte) {
		name = strings.TrimSuffix(name, "/")
		if isDir {
			items = append(items, hx.HS(name)+"=d")
			return
		}
		toks := fsTokens(content)
		t := "?"
		if len(toks) == 1 {
			t = toks[0]
		}
		items = append(items, hx.HS(name)+"="+t)
	}
	switch contentType {
	case "application/zip":
		zr, err := zip.NewReader(bytes.NewReader(body), int64(len(body)))
		if err != nil {
			return nil, fmt.Errorf("zip")
		}
		for _, f := range zr.File {
			if f.FileInfo().IsDir() || strings.HasSuffix(f.Name, "/") {
				add(f.Name, true, nil)
				continue
			}
			rc, err := f.Open()
			if err != nil {
				return nil, fmt.Errorf("zip-entry")
			}
			b, _ := io.ReadAll(rc)
			rc.Close()
			add(f.Name, false, b)
		}
	case "application/tar", "application/tar+gzip":
		var r io.Reader = bytes.NewReader(body)
		if contentType == "application/tar+gzip" {
			zr, err := gzip.NewReader(r)
			if err != nil {
				return nil, fmt.Errorf("gzip")
			}
			r = zr
		}
		tr := tar.NewReader(r)
		for {
			h, err := tr.Next()
			if err == io.EOF {
				break
			}
			if err != nil {
				return nil, fmt.Errorf("tar")
			}
			if h.Typeflag == tar.TypeDir {
				add(h.Name, true, nil)
				continue
			}
			b, _ := io.ReadAll(tr)
			add(h.Name, false, b)
		}
	default:
		return nil, fmt.Errorf("type")
	}
	return items, nil
}
