//go:build c03

package streams

// c03.tpl: a SEQUENCE of requests against one real site that has the `templates` directive behind
// basicauth / internal.  The templates middleware renders into a buffer drawn from a per-site
// sync.Pool; the buffer goes back to the pool holding whatever the request left in it (the page
// source after a parse error, the partial output after an execution error, the whole output after
// a success) — also when the page was a protected one rendered for the holder of the credentials.
// A case is  site, files, steps: the site is started for the case (so a case is self-contained and
// replays in a fresh process), the steps are sent one after the other, each on a connection of its
// own, nothing is reset in between, and the answer lists every response of the sequence: status
// and the tokens / raw template actions found in its body.
//
// Judged: no response to a request without valid credentials carries a token of a file that is
// covered for that request.  Model: Model/TplPool.lean keeps the pool explicitly; that the
// response depends on the request alone is C03_tpl_pool_unobservable.
// Seeded regression C03-templates-buffer-not-reset-after-exec-error (no Reset after Get; the
// return after a failed Execute leaves the partial output in the pooled buffer).

import (
	"encoding/base64"
	"fmt"
	"net"
	"os"
	"path/filepath"
	"regexp"
	"strconv"
	"strings"

	"github.com/tmpim/casket"

	"verifharness/hx"
)

type c03tInst struct {
	T    string
	inst *casket.Instance
	addr string
	err  error
}

// c03tSource renders a page description ("t3,i/inc/p.html,x,p") as template source text.
func c03tSource(items string) string {
	var b strings.Builder
	for _, it := range strings.Split(items, ",") {
		switch {
		case it == "":
		case it[0] == 't':
			fmt.Fprintf(&b, "<p>@@T%s@@</p>\n", it[1:])
		case it[0] == 'i':
			fmt.Fprintf(&b, "{{.Include %q}}\n", it[1:])
		case it == "x":
			b.WriteString("{{.NoSuchField}}\n")
		case it == "p":
			b.WriteString("{{end}}\n")
		}
	}
	return b.String()
}

func c03tCasketfile(root, site string) (string, error) {
	var b strings.Builder
	fmt.Fprintf(&b, "http://tp.test:0 {\n\troot %s\n", root)
	for _, line := range strings.Split(site, "\n") {
		w := strings.Fields(line)
		if len(w) == 0 {
			continue
		}
		switch w[0] {
		case "basicauth": // basicauth <user> <pass> <res,res…> [<excl,…>]
			if len(w) < 4 {
				return "", fmt.Errorf("basicauth: %q", line)
			}
			fmt.Fprintf(&b, "\tbasicauth %s %s {\n", w[1], w[2])
			for _, r := range strings.Split(w[3], ",") {
				fmt.Fprintf(&b, "\t\t%s\n", r)
			}
			if len(w) > 4 && w[4] != "-" {
				for _, e := range strings.Split(w[4], ",") {
					fmt.Fprintf(&b, "\t\texclude %s\n", e)
				}
			}
			b.WriteString("\t}\n")
		case "internal":
			if len(w) != 2 {
				return "", fmt.Errorf("internal: %q", line)
			}
			fmt.Fprintf(&b, "\tinternal %s\n", w[1])
		case "templates": // templates <path> <ext,ext…>
			if len(w) != 3 {
				return "", fmt.Errorf("templates: %q", line)
			}
			fmt.Fprintf(&b, "\ttemplates %s %s\n", w[1], strings.Join(strings.Split(w[2], ","), " "))
		default:
			return "", fmt.Errorf("directive: %q", line)
		}
	}
	b.WriteString("}\n")
	return b.String(), nil
}

func c03tSite(siteF, filesF string) *c03tInst {
	in := &c03tInst{}
	T, err := os.MkdirTemp("", "verif-tpl-")
	if err != nil {
		in.err = err
		return in
	}
	if T, err = filepath.EvalSymlinks(T); err != nil {
		in.err = err
		return in
	}
	in.T = T
	root := filepath.Join(T, "root")
	if err := os.MkdirAll(root, 0o755); err != nil {
		in.err = err
		return in
	}
	for _, f := range strings.Split(filesF, ";") {
		p, items, ok := strings.Cut(f, "=")
		if !ok || !strings.HasPrefix(p, "/") {
			continue
		}
		full := filepath.Join(root, filepath.FromSlash(p))
		os.MkdirAll(filepath.Dir(full), 0o755)
		if err := os.WriteFile(full, []byte(c03tSource(items)), 0o644); err != nil {
			in.err = err
			return in
		}
	}
	cf, err := c03tCasketfile(root, siteF)
	if err != nil {
		in.err = err
		return in
	}
	inst, err := casket.Start(casket.CasketfileInput{Filepath: filepath.Join(T, "Casketfile"), Contents: []byte(cf), ServerTypeName: "http"})
	if err != nil {
		in.err = fmt.Errorf("start: %v", err)
		return in
	}
	in.inst = inst
	if len(inst.Servers()) == 0 || inst.Servers()[0].Addr() == nil {
		in.err = fmt.Errorf("no listener")
		return in
	}
	in.addr = fmt.Sprintf("127.0.0.1:%d", inst.Servers()[0].Addr().(*net.TCPAddr).Port)
	return in
}

var c03tElem = regexp.MustCompile(`@@T([0-9]+)@@|\{\{`)

// c03tBody lists what a body carries: token numbers, and `{` for every raw template action.
func c03tBody(body []byte) string {
	var el []string
	for _, m := range c03tElem.FindAllSubmatch(body, -1) {
		if len(m[1]) > 0 {
			el = append(el, string(m[1]))
		} else {
			el = append(el, "{")
		}
	}
	return strings.Join(el, ".")
}

func c03tEval(f []string) (string, []string) {
	if len(f) != 3 {
		return "bad-case", nil
	}
	in := c03tSite(hx.UnHS(f[0]), hx.UnHS(f[1]))
	defer in.stop()
	if in.err != nil {
		return "setup-error:" + in.err.Error(), nil
	}
	site := &fsSite{addr: in.addr}
	var out []string
	tags := map[string]bool{}
	steps := strings.Split(hx.UnHS(f[2]), ";")
	for _, st := range steps {
		w := strings.Fields(st)
		if len(w) != 2 {
			return "bad-case", nil
		}
		hdr := ""
		if w[1] != "-" {
			hdr = "Authorization: Basic " + base64.StdEncoding.EncodeToString([]byte(w[1])) + "\r\n"
		} else {
			tags["no-creds"] = true
		}
		resp, body, _, err := site.fetchHost("tp.test", "GET", w[0], hdr)
		if err != nil {
			return "io-error", nil
		}
		tags[strconv.Itoa(resp.StatusCode)] = true
		out = append(out, fmt.Sprintf("%d:%s", resp.StatusCode, c03tBody(body)))
	}
	tl := []string{fmt.Sprintf("steps=%d", len(steps))}
	for k := range tags {
		tl = append(tl, k)
	}
	if !tags["200"] {
		tl = append(tl, "trivial-nothing-served")
	}
	return strings.Join(out, " "), tl
}

func (in *c03tInst) stop() {
	if in.inst != nil {
		in.inst.Stop()
	}
	if in.T != "" {
		os.RemoveAll(in.T)
	}
}

// c03tGen: per site every request once, every ordered pair of (request, request) and seeded
// longer sequences; requests = every file and a missing one x {no credentials, each user's, a
// wrong password}.
func c03tGen(g *hx.Gen) {
	type layout struct {
		site, files string
		creds       []string
	}
	// tokens: 1x public pages, 2x pages below /secret (bob), 3x below /vault (alice) or internal, 4x partials
	layouts := []layout{
		{ // the plain case: one protected directory, default-like extensions
			"basicauth bob pw /secret\ntemplates / .html,.tpl",
			"/home.html=t10;/about.html=t11,i/inc/foot.html;/style.css=t12,i/inc/foot.html;" +
				"/secret/ok.html=t20,i/inc/foot.html;/secret/report.html=t21,i/secret/missing.html,t22;" +
				"/secret/broken.html=t23,x,t24;/secret/unparsed.html=t25,p;/secret/deep.html=t26,i/secret/part.html,i/secret/nope.html;" +
				"/secret/part.html=t27;/secret/data.css=t28,x;/inc/foot.html=t40",
			[]string{"-", "bob:pw", "bob:wrong"},
		},
		{ // two users with their own areas, an internal directory, templates only below some scopes
			"basicauth bob pw /secret/,/private.html /secret/open/\nbasicauth alice pw2 /vault\ninternal /int\ntemplates /vault .html\ntemplates / .html,.txt",
			"/home.html=t10;/notes.txt=t11,i/inc/a.html;/private.html=t20,i/inc/a.html,x;/secret/r.html=t21,i/nowhere.html;" +
				"/secret/open/o.html=t12,i/inc/a.html,x;/vault/v.html=t30,x;/vault/w.txt=t31,x;/vault/fine.html=t32;" +
				"/int/p.html=t33;/int/q.html=t34,x;/inc/a.html=t40,i/inc/b.html;/inc/b.html=t41",
			[]string{"-", "bob:pw", "alice:pw2", "alice:pw"},
		},
	}
	emit := func(l layout, steps []string) {
		g.Case(hx.HS(l.site), hx.HS(l.files), hx.HS(strings.Join(steps, ";")))
	}
	// a PUBLIC page that includes a protected partial: `.Include` reads below the site root and no
	// protection applies to it (known finding C03-template-includes-protected); kept to a few cases
	// so that it masks nothing else
	inc := layout{"basicauth bob pw /secret\ntemplates / .html",
		"/home.html=t10;/digest.html=t11,i/secret/part.html;/secret/part.html=t27", nil}
	emit(inc, []string{"/digest.html -"})
	emit(inc, []string{"/digest.html bob:pw", "/secret/part.html -", "/digest.html bob:wrong", "/home.html -"})
	for _, l := range layouts {
		var paths []string
		for _, f := range strings.Split(l.files, ";") {
			p, _, _ := strings.Cut(f, "=")
			paths = append(paths, p)
		}
		paths = append(paths, "/missing.html", "/secret/none.html")
		var reqs []string
		for _, p := range paths {
			for _, c := range l.creds {
				reqs = append(reqs, p+" "+c)
			}
		}
		// short sequences first (a found regression is then reported on a short case): a request
		// with credentials, an anonymous one, four times over
		var anon, named []string
		for _, r := range reqs {
			if strings.HasSuffix(r, " -") {
				anon = append(anon, r)
			} else {
				named = append(named, r)
			}
		}
		for _, a := range named {
			for _, b := range anon[:2] {
				emit(l, []string{a, b, a, b, a, b, a, b})
			}
		}
		// every request once, on a fresh site
		emit(l, reqs)
		// every ordered pair (a, b), as  a b1 a b2 a b3 …: what `a` leaves in the pool meets each b
		for _, a := range reqs {
			var steps []string
			for _, b := range reqs {
				steps = append(steps, a, b)
			}
			emit(l, steps)
		}
		n := 40
		if g.Thorough() {
			n = 600
		}
		for i := 0; i < n; i++ {
			k := 3 + g.Rng.Intn(30)
			var steps []string
			for j := 0; j < k; j++ {
				steps = append(steps, hx.Pick(g.Rng, reqs))
			}
			emit(l, steps)
		}
	}
}

func init() {
	hx.Register(&hx.Stream{ID: "C03", Name: "c03.tpl", Gen: c03tGen, Eval: c03tEval, Serial: true, Setup: fsSetup})
}
