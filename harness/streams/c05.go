//go:build c05

package streams

import (
	"fmt"
	"hash/fnv"
	"math/rand"
	"net/http"
	"strconv"
	"strings"
	"sync"
	"sync/atomic"

	"github.com/tmpim/casket/casketfile"
	"github.com/tmpim/casket/caskethttp/proxy"

	"verifharness/hx"
)

// c05.select  kind  pool  robin  keyhex  rands  seed  [layout]
//   layout (optional 7th field, see c04_layout.go): the pool has one max_conns value, written as `max_conns` in the
//          block (not poked into the hosts), backends on the directive line / on `upstream` lines, lines in the given order
//   kind  random|least_conn|round_robin|first|ip_hash|uri_hash|header|header_empty
//   pool  comma list of d/c/m : d 0 up, 1 unhealthy (health check), 2 failed (fails >= max_fails); conns; max_conns
//   out   <index or -> TAB <round-robin counter after the call>
//
// The real code path: proxy.NewStaticUpstreams (Casketfile tokens) -> staticUpstream.Select.

var c05mu sync.Mutex // math/rand global state and the global round robin are shared

// the upstream block: n backends, the policy and (maxConns >= 0) the connection cap of the block
func c05Block(kind string, n int, maxConns int64) ([]string, []blkLine) {
	policy := kind
	if kind == "header" || kind == "header_empty" {
		policy = "header X-Key X-Key2"
	}
	backends := make([]string, n)
	for i := range backends {
		backends[i] = fmt.Sprintf("h%d.test:80", i)
	}
	lines := []blkLine{{"", " policy " + policy + "\n"}}
	if maxConns >= 0 {
		lines = append(lines, blkLine{"", fmt.Sprintf(" max_conns %d\n", maxConns)})
	}
	return backends, lines
}

func c05NewUpstream(kind string, n int, lay string, maxConns int64) (proxy.Upstream, proxy.HostPool, string) {
	backends, lines := c05Block(kind, n, maxConns)
	cfg, ok := blkWrite("proxy /", backends, lines, lay)
	if !ok {
		return nil, nil, "bad-case:layout"
	}
	ups, err := proxy.NewStaticUpstreams(casketfile.NewDispenser("Testfile", strings.NewReader(cfg)), "")
	if err != nil || len(ups) != 1 {
		return nil, nil, fmt.Sprintf("setup-error:%v", err)
	}
	pool := proxy.VerifHosts(ups[0])
	if len(pool) != n {
		return nil, nil, "setup-error:pool"
	}
	// identity of the configured backends, taken BEFORE any Select
	orig := make(proxy.HostPool, n)
	copy(orig, pool)
	return ups[0], orig, ""
}

// c05Step sets the per-host state on the configured backends, performs one Select and
// returns the index of the configured backend that was chosen.
// cfgCap >= 0: the connection cap comes from the block (`max_conns`) and every host of the case must name that value.
func c05Step(up proxy.Upstream, orig proxy.HostPool, kind, poolS, keyS, randsS, seedS string, robin *uint64, setRobin bool, cfgCap int64) (string, int) {
	hosts := strings.Split(poolS, ",")
	if len(hosts) != len(orig) {
		return "bad-case", 0
	}
	nAvail := 0
	for i, hs := range hosts {
		p := strings.Split(hs, "/")
		c, _ := strconv.ParseInt(p[1], 10, 64)
		m, _ := strconv.ParseInt(p[2], 10, 64)
		atomic.StoreInt64(&orig[i].Conns, c)
		if cfgCap < 0 {
			orig[i].MaxConns = m
		} else if m != cfgCap {
			return "bad-case:max_conns differ within a written block", 0
		}
		atomic.StoreInt32(&orig[i].Unhealthy, 0)
		atomic.StoreInt32(&orig[i].Fails, 0)
		switch p[0] {
		case "1":
			atomic.StoreInt32(&orig[i].Unhealthy, 1)
		case "2":
			atomic.StoreInt32(&orig[i].Fails, 1)
		}
		if orig[i].Available() {
			nAvail++
		}
	}
	seed, _ := strconv.ParseInt(seedS, 10, 64)
	key := hx.UnHS(keyS)
	req, _ := http.NewRequest("GET", "http://example.test/", nil)
	req.RemoteAddr = "192.0.2.1:4000"
	req.RequestURI = "/"
	switch kind {
	case "ip_hash":
		if strings.Contains(key, ":") {
			req.RemoteAddr = "[" + key + "]:4000"
		} else {
			req.RemoteAddr = key + ":4000"
		}
	case "uri_hash":
		req.RequestURI = key
	case "header":
		// the value is split over two header names to exercise the concatenation
		req.Header["X-Key"] = []string{key[:len(key)/2]}
		req.Header["X-Key2"] = []string{key[len(key)/2:]}
	}
	var rr *proxy.RoundRobin
	switch kind {
	case "round_robin":
		rr, _ = proxy.VerifPolicy(up).(*proxy.RoundRobin)
		if rr == nil {
			return "setup-error:policy", 0
		}
	case "header_empty":
		rr = proxy.VerifGlobalRobin()
	}
	if rr != nil && setRobin {
		proxy.VerifSetRobin(rr, uint32(*robin))
	}
	// the draws Select will consume are the first ones after seeding
	rand.Seed(seed)
	if randsS != "" {
		for _, w := range strings.Split(randsS, ",") {
			if strconv.Itoa(rand.Int()) != w {
				return "bad-case:rands do not belong to seed", 0
			}
		}
	}
	rand.Seed(seed)
	h := up.Select(req)
	if rr != nil {
		*robin = uint64(proxy.VerifRobin(rr))
	}
	choice := "-"
	if h != nil {
		choice = "foreign-host"
		for i := range orig {
			if orig[i] == h {
				choice = strconv.Itoa(i)
			}
		}
	}
	return choice, nAvail
}

func c05Eval(f []string) (string, []string) {
	if len(f) != 6 && len(f) != 7 {
		return "bad-case", nil
	}
	kind, poolS, robinS, keyS, randsS, seedS := f[0], f[1], f[2], f[3], f[4], f[5]
	if poolS == "" {
		return "bad-case", nil
	}
	hostsS := strings.Split(poolS, ",")
	n := len(hostsS)
	lay, cfgCap := "", int64(-1)
	if len(f) == 7 {
		lay = f[6]
		p := strings.Split(hostsS[0], "/")
		if len(p) != 3 {
			return "bad-case", nil
		}
		m, err := strconv.ParseInt(p[2], 10, 64)
		if err != nil || m < 0 {
			return "bad-case", nil
		}
		cfgCap = m
	}
	up, orig, e := c05NewUpstream(kind, n, lay, cfgCap)
	if e != "" {
		return e, nil
	}
	defer up.Stop()
	robin, _ := strconv.ParseUint(robinS, 10, 32)
	c05mu.Lock()
	defer c05mu.Unlock()
	choice, nAvail := c05Step(up, orig, kind, poolS, keyS, randsS, seedS, &robin, true, cfgCap)
	if strings.HasPrefix(choice, "bad-case") {
		return choice, nil
	}
	tags := append([]string{kind, fmt.Sprintf("n=%d", n)}, blkLayoutTags(lay)...)
	switch {
	case nAvail == 0:
		tags = append(tags, "trivial-none-available")
	case nAvail == n:
		tags = append(tags, "trivial-all-available")
	default:
		tags = append(tags, "some-unavailable")
	}
	return choice + "\t" + strconv.FormatUint(robin, 10), tags
}

// c05.seq  kind  robin0  steps      steps = ';' separated  pool|keyhex|rands|seed
// One upstream, several Selects with the host states changing in between (state carried by
// the code between calls — the round-robin counter, anything Select does to the pool — is
// inside the tie).  out = comma list of choices TAB final counter.
func c05SeqEval(f []string) (string, []string) {
	if len(f) != 3 {
		return "bad-case", nil
	}
	kind := f[0]
	steps := strings.Split(f[2], ";")
	n := len(strings.Split(strings.Split(steps[0], "|")[0], ","))
	up, orig, e := c05NewUpstream(kind, n, "", -1)
	if e != "" {
		return e, nil
	}
	defer up.Stop()
	robin, _ := strconv.ParseUint(f[1], 10, 32)
	c05mu.Lock()
	defer c05mu.Unlock()
	var outs []string
	recovered := false
	prevAvail := -1
	for i, st := range steps {
		p := strings.Split(st, "|")
		if len(p) != 4 {
			return "bad-case", nil
		}
		ch, nAvail := c05Step(up, orig, kind, p[0], p[1], p[2], p[3], &robin, i == 0, -1)
		if prevAvail >= 0 && nAvail > prevAvail {
			recovered = true
		}
		prevAvail = nAvail
		outs = append(outs, ch)
	}
	tags := []string{kind, fmt.Sprintf("steps=%d", len(steps))}
	if recovered {
		tags = append(tags, "a-backend-recovered")
	} else {
		tags = append(tags, "trivial-no-recovery")
	}
	return strings.Join(outs, ",") + "\t" + strconv.FormatUint(robin, 10), tags
}

func c05Rands(seed int64, n int) string {
	c05mu.Lock()
	defer c05mu.Unlock()
	rand.Seed(seed)
	xs := make([]string, n)
	for i := range xs {
		xs[i] = strconv.Itoa(rand.Int())
	}
	return strings.Join(xs, ",")
}

// c05BoundaryKeys returns printable 6-byte keys whose FNV-1a hash is one of the targets
// (values next to 0 and 2^32, where uint32 index arithmetic can wrap), found by a
// meet-in-the-middle over 3 forward and 3 backward bytes.
var c05BoundaryOnce sync.Once
var c05Boundary []string

func c05BoundaryKeys() []string {
	c05BoundaryOnce.Do(func() {
		const prime, inv = 16777619, 899433627 // inv = prime^-1 mod 2^32
		alpha := []byte("abcdefghijklmnopqrstuvwxyzABCDEFGHIJKLMNOPQRSTUVWXYZ0123456789-_.~")
		fwd := map[uint32][3]byte{}
		for _, a := range alpha {
			for _, b := range alpha {
				for _, c := range alpha {
					h := uint32(2166136261)
					h = (h ^ uint32(a)) * prime
					h = (h ^ uint32(b)) * prime
					h = (h ^ uint32(c)) * prime
					fwd[h] = [3]byte{a, b, c}
				}
			}
		}
		var targets []uint32
		for d := uint32(0); d < 10; d++ {
			targets = append(targets, 0xFFFFFFFF-d, d)
		}
		for _, t := range targets {
			found := 0
			for _, f := range alpha {
				for _, e := range alpha {
					for _, d := range alpha {
						// undo the last three steps: h_prev = (h * inv) ^ byte
						h := t
						h = (h * inv) ^ uint32(f)
						h = (h * inv) ^ uint32(e)
						h = (h * inv) ^ uint32(d)
						if p, ok := fwd[h]; ok && found < 2 {
							c05Boundary = append(c05Boundary, string([]byte{p[0], p[1], p[2], d, e, f}))
							found++
						}
					}
				}
			}
		}
	})
	return c05Boundary
}

var c05Kinds = []string{"random", "least_conn", "round_robin", "first", "ip_hash", "uri_hash", "header", "header_empty"}

func c05Gen(g *hx.Gen) {
	maxN := 5
	if g.Thorough() {
		maxN = 8
	}
	keys := []string{"10.0.0.1", "10.0.0.2", "192.168.7.33", "2001:db8::1", "/", "/a/b?c=d", "k", "some-longer-key-value"}
	// exhaustive: every availability mask of pools of 1..maxN, every policy, keys covering every residue
	for n := 1; n <= maxN; n++ {
		for mask := 0; mask < 1<<n; mask++ {
			for _, kind := range c05Kinds {
				variants := 1
				switch kind {
				case "ip_hash", "uri_hash", "header":
					variants = len(keys)
				case "round_robin", "header_empty":
					variants = n + 2
				case "random", "least_conn":
					variants = 3
				}
				for v := 0; v < variants; v++ {
					hosts := make([]string, n)
					for i := 0; i < n; i++ {
						up := mask>>i&1 == 1
						// unavailability cause cycles through unhealthy / failed / full
						switch {
						case up && kind == "least_conn":
							hosts[i] = fmt.Sprintf("0/%d/0", (i*7+v*3+mask)%4)
						case up:
							hosts[i] = fmt.Sprintf("0/%d/%d", i%2, (i%2)*5)
						case (i+v)%3 == 0:
							hosts[i] = "1/0/0"
						case (i+v)%3 == 1:
							hosts[i] = "2/0/0"
						default:
							hosts[i] = "0/3/3"
						}
					}
					robin := uint64(0)
					key := ""
					seed := int64(0)
					rands := ""
					switch kind {
					case "ip_hash":
						key = keys[v%4]
					case "uri_hash":
						key = keys[4+v%4]
					case "header":
						key = keys[v]
					case "round_robin", "header_empty":
						robin = uint64(v)
						if v == n+1 {
							robin = 4294967295 - uint64(mask%3)
						}
					case "random", "least_conn":
						seed = int64(mask*31 + v + 1)
						rands = c05Rands(seed, n)
					}
					g.Case(kind, strings.Join(hosts, ","), strconv.FormatUint(robin, 10), hx.HS(key), rands, strconv.FormatInt(seed, 10))
				}
			}
		}
	}
	// the connection cap WRITTEN in the block (`max_conns M`, not poked into the hosts), the backends named on the directive
	// line / on `upstream` lines / mixed, the lines of the block in every order (up to four lines; sampled beyond):
	// every availability mask of pools of 1..4, every policy; unavailable = unhealthy / failed / at the cap
	for n := 1; n <= 4; n++ {
		for mask := 0; mask < 1<<n; mask++ {
			for ki, kind := range c05Kinds {
				for _, M := range []int{1, 2} {
					if !g.Thorough() && n == 4 && (mask+ki+M)%2 == 0 {
						continue
					}
					hosts := make([]string, n)
					for i := range hosts {
						switch {
						case mask>>i&1 == 1:
							hosts[i] = fmt.Sprintf("0/%d/%d", (i+ki)%M, M)
						case (i+ki+mask)%3 == 0:
							hosts[i] = fmt.Sprintf("0/%d/%d", M+(i+mask)%2, M)
						case (i+ki+mask)%3 == 1:
							hosts[i] = fmt.Sprintf("1/0/%d", M)
						default:
							hosts[i] = fmt.Sprintf("2/0/%d", M)
						}
					}
					backends, lines := c05Block(kind, n, int64(M))
					for li, lay := range append([]string{"d:0"}, blkLayouts(g.Rng, backends, lines, []string{"d", "u", "m1"}, 3)...) {
						robin, key, seed, rands := uint64(0), "", int64(0), ""
						switch kind {
						case "ip_hash":
							key = keys[(mask+li)%4]
						case "uri_hash":
							key = keys[4+(mask+li)%4]
						case "header":
							key = keys[(mask+li)%len(keys)]
						case "round_robin", "header_empty":
							robin = uint64((mask + li) % (n + 1))
						case "random", "least_conn":
							seed = int64(mask*31 + li + 1)
							rands = c05Rands(seed, n)
						}
						g.Case(kind, strings.Join(hosts, ","), strconv.FormatUint(robin, 10), hx.HS(key), rands, strconv.FormatInt(seed, 10), lay)
					}
				}
			}
		}
	}
	// keys whose hash sits next to 0 / 2^32: every single-survivor pool of 2..7 (non powers of two included)
	for _, key := range c05BoundaryKeys() {
		for n := 2; n <= 7; n++ {
			for up := 0; up < n; up++ {
				hosts := make([]string, n)
				for i := range hosts {
					hosts[i] = "1/0/0"
				}
				hosts[up] = "0/0/0"
				for _, kind := range []string{"uri_hash", "header"} {
					g.Case(kind, strings.Join(hosts, ","), "0", hx.HS(key), "", "0")
				}
			}
		}
	}
	// random: larger pools, random states, counters near the uint32 wrap
	N := 3000
	if g.Thorough() {
		N = 60000
	}
	for it := 0; it < N; it++ {
		n := 1 + g.Rng.Intn(24)
		kind := hx.Pick(g.Rng, c05Kinds)
		hosts := make([]string, n)
		pUp := g.Rng.Intn(5)
		for i := range hosts {
			if g.Rng.Intn(4) < pUp {
				c := g.Rng.Intn(6)
				m := 0
				if g.Rng.Bool() {
					m = c + 1 + g.Rng.Intn(3)
				}
				hosts[i] = fmt.Sprintf("0/%d/%d", c, m)
			} else {
				switch g.Rng.Intn(3) {
				case 0:
					hosts[i] = "1/0/0"
				case 1:
					hosts[i] = fmt.Sprintf("2/%d/0", g.Rng.Intn(3))
				default:
					c := 1 + g.Rng.Intn(4)
					hosts[i] = fmt.Sprintf("0/%d/%d", c+g.Rng.Intn(2), c)
				}
			}
		}
		robin := uint64(g.Rng.Intn(50))
		if g.Rng.Chance(1, 4) {
			robin = 4294967295 - uint64(g.Rng.Intn(40))
		}
		kb := make([]byte, 1+g.Rng.Intn(12))
		for i := range kb {
			kb[i] = "abcdefghijklmnopqrstuvwxyz0123456789/-_."[g.Rng.Intn(40)]
		}
		key := string(kb)
		if kind == "ip_hash" {
			key = fmt.Sprintf("%d.%d.%d.%d", g.Rng.Intn(256), g.Rng.Intn(256), g.Rng.Intn(256), g.Rng.Intn(256))
		}
		if kind == "uri_hash" {
			key = "/" + key
		}
		seed := int64(g.Rng.Intn(1 << 30))
		rands := ""
		if kind == "random" || kind == "least_conn" {
			rands = c05Rands(seed, n)
		}
		if kind == "header_empty" || kind == "round_robin" || kind == "first" || kind == "random" || kind == "least_conn" {
			key = ""
		}
		g.Case(kind, strings.Join(hosts, ","), strconv.FormatUint(robin, 10), hx.HS(key), rands, strconv.FormatInt(seed, 10))
	}
}

func c05RandomPool(g *hx.Gen, n int, pUp int) string {
	hosts := make([]string, n)
	for i := range hosts {
		if g.Rng.Intn(4) < pUp {
			c := g.Rng.Intn(6)
			m := 0
			if g.Rng.Bool() {
				m = c + 1 + g.Rng.Intn(3)
			}
			hosts[i] = fmt.Sprintf("0/%d/%d", c, m)
		} else {
			switch g.Rng.Intn(3) {
			case 0:
				hosts[i] = "1/0/0"
			case 1:
				hosts[i] = fmt.Sprintf("2/%d/0", g.Rng.Intn(3))
			default:
				c := 1 + g.Rng.Intn(4)
				hosts[i] = fmt.Sprintf("0/%d/%d", c+g.Rng.Intn(2), c)
			}
		}
	}
	return strings.Join(hosts, ",")
}

func c05SeqGen(g *hx.Gen) {
	N := 1500
	if g.Thorough() {
		N = 20000
	}
	for it := 0; it < N; it++ {
		kind := hx.Pick(g.Rng, c05Kinds)
		n := 2 + g.Rng.Intn(5)
		k := 2 + g.Rng.Intn(4)
		steps := make([]string, k)
		for s := range steps {
			pool := c05RandomPool(g, n, 1+g.Rng.Intn(4))
			key := ""
			switch kind {
			case "ip_hash":
				key = fmt.Sprintf("10.%d.%d.%d", g.Rng.Intn(256), g.Rng.Intn(256), g.Rng.Intn(256))
			case "uri_hash":
				key = fmt.Sprintf("/p/%d", g.Rng.Intn(1000))
			case "header":
				key = fmt.Sprintf("user-%d", g.Rng.Intn(1000))
			}
			seed := int64(g.Rng.Intn(1 << 30))
			rands := ""
			if kind == "random" || kind == "least_conn" {
				rands = c05Rands(seed, n)
			}
			steps[s] = pool + "|" + hx.HS(key) + "|" + rands + "|" + strconv.FormatInt(seed, 10)
		}
		robin := uint64(g.Rng.Intn(20))
		if g.Rng.Chance(1, 5) {
			robin = 4294967295 - uint64(g.Rng.Intn(10))
		}
		g.Case(kind, strconv.FormatUint(robin, 10), strings.Join(steps, ";"))
	}
}

func init() {
	hx.Register(&hx.Stream{ID: "C05", Name: "c05.select", Gen: c05Gen, Eval: c05Eval})
	hx.Register(&hx.Stream{ID: "C05", Name: "c05.seq", Gen: c05SeqGen, Eval: c05SeqEval})
	hx.Register(&hx.Stream{ID: "C05", Name: "c05.fnv",
		Gen: func(g *hx.Gen) {
			g.Case("")
			for i := 0; i < 300; i++ {
				b := make([]byte, g.Rng.Intn(40))
				for j := range b {
					b[j] = byte(g.Rng.Intn(256))
				}
				g.Case(hx.H(b))
			}
		},
		Eval: func(f []string) (string, []string) {
			h := fnv.New32a()
			h.Write(hx.UnH(f[0]))
			return strconv.FormatUint(uint64(h.Sum32()), 10), []string{fmt.Sprintf("len=%d", len(f[0])/2)}
		}})
}
