//go:build c05

package streams

import (
	"fmt"
	"hash/fnv"
	"math/rand"
	"net/http"
	"strconv"
	"strings"
	"sync"
	"sync/atomic"

	"github.com/tmpim/casket/casketfile"
	"github.com/tmpim/casket/caskethttp/proxy"

	"verifharness/hx"
)

// c05.select  kind  pool  robin  keyhex  rands  seed
//   kind  random|least_conn|round_robin|first|ip_hash|uri_hash|header|header_empty
//   pool  comma list of d/c/m : d 0 up, 1 unhealthy (health check), 2 failed (fails >= max_fails); conns; max_conns
//   out   <index or -> TAB <round-robin counter after the call>
//
// The real code path: proxy.NewStaticUpstreams (Casketfile tokens) -> staticUpstream.Select.

var c05mu sync.Mutex // math/rand global state and the global round robin are shared

func c05Eval(f []string) (string, []string) {
	if len(f) != 6 {
		return "bad-case", nil
	}
	kind, poolS, robinS, keyS, randsS, seedS := f[0], f[1], f[2], f[3], f[4], f[5]
	hosts := []string{}
	if poolS != "" {
		hosts = strings.Split(poolS, ",")
	}
	if len(hosts) == 0 {
		return "bad-case", nil
	}
	policy := kind
	if kind == "header" || kind == "header_empty" {
		policy = "header X-Key X-Key2"
	}
	var cfg strings.Builder
	cfg.WriteString("proxy /")
	for i := range hosts {
		fmt.Fprintf(&cfg, " h%d.test:80", i)
	}
	fmt.Fprintf(&cfg, " {\n policy %s\n}\n", policy)
	ups, err := proxy.NewStaticUpstreams(casketfile.NewDispenser("Testfile", strings.NewReader(cfg.String())), "")
	if err != nil || len(ups) != 1 {
		return fmt.Sprintf("setup-error:%v", err), nil
	}
	up := ups[0]
	defer up.Stop()
	pool := proxy.VerifHosts(up)
	if len(pool) != len(hosts) {
		return "setup-error:pool", nil
	}
	nAvail := 0
	for i, hs := range hosts {
		p := strings.Split(hs, "/")
		c, _ := strconv.ParseInt(p[1], 10, 64)
		m, _ := strconv.ParseInt(p[2], 10, 64)
		pool[i].Conns = c
		pool[i].MaxConns = m
		switch p[0] {
		case "1":
			atomic.StoreInt32(&pool[i].Unhealthy, 1)
		case "2":
			atomic.StoreInt32(&pool[i].Fails, 1)
		}
		if pool[i].Available() {
			nAvail++
		}
	}
	robin, _ := strconv.ParseUint(robinS, 10, 32)
	seed, _ := strconv.ParseInt(seedS, 10, 64)
	key := hx.UnHS(keyS)

	req, _ := http.NewRequest("GET", "http://example.test/", nil)
	req.RemoteAddr = "192.0.2.1:4000"
	req.RequestURI = "/"
	switch kind {
	case "ip_hash":
		if strings.Contains(key, ":") {
			req.RemoteAddr = "[" + key + "]:4000"
		} else {
			req.RemoteAddr = key + ":4000"
		}
	case "uri_hash":
		req.RequestURI = key
	case "header":
		// the value is split over two header names to exercise the concatenation
		req.Header.Set("X-Key", key[:len(key)/2])
		req.Header.Set("X-Key2", key[len(key)/2:])
	}

	c05mu.Lock()
	defer c05mu.Unlock()
	var rr *proxy.RoundRobin
	switch kind {
	case "round_robin":
		rr, _ = proxy.VerifPolicy(up).(*proxy.RoundRobin)
		if rr == nil {
			return "setup-error:policy", nil
		}
	case "header_empty":
		rr = proxy.VerifGlobalRobin()
	}
	if rr != nil {
		proxy.VerifSetRobin(rr, uint32(robin))
	}
	// the draws Select will consume are the first ones after seeding
	rand.Seed(seed)
	var want []string
	if randsS != "" {
		want = strings.Split(randsS, ",")
	}
	for _, w := range want {
		if strconv.Itoa(rand.Int()) != w {
			return "bad-case:rands do not belong to seed", nil
		}
	}
	rand.Seed(seed)
	h := up.Select(req)
	after := uint32(robin)
	if rr != nil {
		after = proxy.VerifRobin(rr)
	}
	choice := "-"
	if h != nil {
		for i := range pool {
			if pool[i] == h {
				choice = strconv.Itoa(i)
			}
		}
		if choice == "-" {
			choice = "foreign-host"
		}
	}
	tags := []string{kind, fmt.Sprintf("n=%d", len(pool))}
	switch {
	case nAvail == 0:
		tags = append(tags, "trivial-none-available")
	case nAvail == len(pool):
		tags = append(tags, "trivial-all-available")
	default:
		tags = append(tags, "some-unavailable")
	}
	return choice + "\t" + strconv.FormatUint(uint64(after), 10), tags
}

func c05Rands(seed int64, n int) string {
	c05mu.Lock()
	defer c05mu.Unlock()
	rand.Seed(seed)
	xs := make([]string, n)
	for i := range xs {
		xs[i] = strconv.Itoa(rand.Int())
	}
	return strings.Join(xs, ",")
}

var c05Kinds = []string{"random", "least_conn", "round_robin", "first", "ip_hash", "uri_hash", "header", "header_empty"}

func c05Gen(g *hx.Gen) {
	maxN := 5
	if g.Thorough() {
		maxN = 8
	}
	keys := []string{"10.0.0.1", "10.0.0.2", "192.168.7.33", "2001:db8::1", "/", "/a/b?c=d", "k", "some-longer-key-value"}
	// exhaustive: every availability mask of pools of 1..maxN, every policy, keys covering every residue
	for n := 1; n <= maxN; n++ {
		for mask := 0; mask < 1<<n; mask++ {
			for _, kind := range c05Kinds {
				variants := 1
				switch kind {
				case "ip_hash", "uri_hash", "header":
					variants = len(keys)
				case "round_robin", "header_empty":
					variants = n + 2
				case "random", "least_conn":
					variants = 3
				}
				for v := 0; v < variants; v++ {
					hosts := make([]string, n)
					for i := 0; i < n; i++ {
						up := mask>>i&1 == 1
						// unavailability cause cycles through unhealthy / failed / full
						switch {
						case up && kind == "least_conn":
							hosts[i] = fmt.Sprintf("0/%d/0", (i*7+v*3+mask)%4)
						case up:
							hosts[i] = fmt.Sprintf("0/%d/%d", i%2, (i%2)*5)
						case (i+v)%3 == 0:
							hosts[i] = "1/0/0"
						case (i+v)%3 == 1:
							hosts[i] = "2/0/0"
						default:
							hosts[i] = "0/3/3"
						}
					}
					robin := uint64(0)
					key := ""
					seed := int64(0)
					rands := ""
					switch kind {
					case "ip_hash":
						key = keys[v%4]
					case "uri_hash":
						key = keys[4+v%4]
					case "header":
						key = keys[v]
					case "round_robin", "header_empty":
						robin = uint64(v)
						if v == n+1 {
							robin = 4294967295 - uint64(mask%3)
						}
					case "random", "least_conn":
						seed = int64(mask*31 + v + 1)
						rands = c05Rands(seed, n)
					}
					g.Case(kind, strings.Join(hosts, ","), strconv.FormatUint(robin, 10), hx.HS(key), rands, strconv.FormatInt(seed, 10))
				}
			}
		}
	}
	// random: larger pools, random states, counters near the uint32 wrap
	N := 3000
	if g.Thorough() {
		N = 60000
	}
	for it := 0; it < N; it++ {
		n := 1 + g.Rng.Intn(24)
		kind := hx.Pick(g.Rng, c05Kinds)
		hosts := make([]string, n)
		pUp := g.Rng.Intn(5)
		for i := range hosts {
			if g.Rng.Intn(4) < pUp {
				c := g.Rng.Intn(6)
				m := 0
				if g.Rng.Bool() {
					m = c + 1 + g.Rng.Intn(3)
				}
				hosts[i] = fmt.Sprintf("0/%d/%d", c, m)
			} else {
				switch g.Rng.Intn(3) {
				case 0:
					hosts[i] = "1/0/0"
				case 1:
					hosts[i] = fmt.Sprintf("2/%d/0", g.Rng.Intn(3))
				default:
					c := 1 + g.Rng.Intn(4)
					hosts[i] = fmt.Sprintf("0/%d/%d", c+g.Rng.Intn(2), c)
				}
			}
		}
		robin := uint64(g.Rng.Intn(50))
		if g.Rng.Chance(1, 4) {
			robin = 4294967295 - uint64(g.Rng.Intn(40))
		}
		kb := make([]byte, 1+g.Rng.Intn(12))
		for i := range kb {
			kb[i] = "abcdefghijklmnopqrstuvwxyz0123456789/-_."[g.Rng.Intn(40)]
		}
		key := string(kb)
		if kind == "ip_hash" {
			key = fmt.Sprintf("%d.%d.%d.%d", g.Rng.Intn(256), g.Rng.Intn(256), g.Rng.Intn(256), g.Rng.Intn(256))
		}
		if kind == "uri_hash" {
			key = "/" + key
		}
		seed := int64(g.Rng.Intn(1 << 30))
		rands := ""
		if kind == "random" || kind == "least_conn" {
			rands = c05Rands(seed, n)
		}
		if kind == "header_empty" || kind == "round_robin" || kind == "first" || kind == "random" || kind == "least_conn" {
			key = ""
		}
		g.Case(kind, strings.Join(hosts, ","), strconv.FormatUint(robin, 10), hx.HS(key), rands, strconv.FormatInt(seed, 10))
	}
}

func init() {
	hx.Register(&hx.Stream{ID: "C05", Name: "c05.select", Gen: c05Gen, Eval: c05Eval})
	hx.Register(&hx.Stream{ID: "C05", Name: "c05.fnv",
		Gen: func(g *hx.Gen) {
			g.Case("")
			for i := 0; i < 300; i++ {
				b := make([]byte, g.Rng.Intn(40))
				for j := range b {
					b[j] = byte(g.Rng.Intn(256))
				}
				g.Case(hx.H(b))
			}
		},
		Eval: func(f []string) (string, []string) {
			h := fnv.New32a()
			h.Write(hx.UnH(f[0]))
			return strconv.FormatUint(uint64(h.Sum32()), 10), []string{fmt.Sprintf("len=%d", len(f[0])/2)}
		}})
}
