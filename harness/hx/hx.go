// Package hx is the small framework every correspondence stream plugs into.
//
// A stream has a generator (which only produces case fields, drawing every
// random choice from one SplitMix64 state) and an evaluator (which runs the
// real casket code on the case fields and returns a canonical answer plus
// coverage tags).  Replay, corpus and shrinking all go through Eval.
package hx

import (
	"bufio"
	"encoding/hex"
	"encoding/json"
	"fmt"
	"os"
	"path/filepath"
	"runtime/debug"
	"sort"
	"strings"
	"sync"
)

// Rng is SplitMix64.
type Rng struct{ s uint64 }

func NewRng(seed uint64) *Rng { return &Rng{s: seed*0x9E3779B97F4A7C15 + 0x1234567} }
func (r *Rng) U64() uint64 {
	r.s += 0x9E3779B97F4A7C15
	z := r.s
	z = (z ^ (z >> 30)) * 0xBF58476D1CE4E5B9
	z = (z ^ (z >> 27)) * 0x94D049BB133111EB
	return z ^ (z >> 31)
}
func (r *Rng) Intn(n int) int {
	if n <= 0 {
		return 0
	}
	return int(r.U64() % uint64(n))
}
func (r *Rng) Bool() bool               { return r.U64()&1 == 1 }
func (r *Rng) Chance(num, den int) bool { return r.Intn(den) < num }
func Pick[T any](r *Rng, xs []T) T      { return xs[r.Intn(len(xs))] }

// Gen is handed to a stream's generator.
type Gen struct {
	Tier string // quick | thorough
	Seed uint64
	Rng  *Rng
	emit func(fields []string)
}

func (g *Gen) Thorough() bool { return g.Tier == "thorough" }

// Case submits one case (its fields, without the stream name).
func (g *Gen) Case(fields ...string) { g.emit(fields) }

// Stream is one correspondence stream.
type Stream struct {
	ID   string // property id, e.g. C05
	Name string // e.g. c05.select
	Gen  func(g *Gen)
	// Eval runs the implementation. It must be deterministic in fields.
	Eval func(fields []string) (out string, tags []string)
	// Serial streams are evaluated on one goroutine (they touch process-global state).
	Serial bool
	// Setup, if set, runs once before any Eval; Teardown after.
	Setup    func() error
	Teardown func()
}

var registry []*Stream

func Register(s *Stream) { registry = append(registry, s) }

func Streams(id string) []*Stream {
	var out []*Stream
	for _, s := range registry {
		if s.ID == id || s.Name == id {
			out = append(out, s)
		}
	}
	return out
}

func AllIDs() []string {
	m := map[string]bool{}
	for _, s := range registry {
		m[s.ID] = true
	}
	var ids []string
	for k := range m {
		ids = append(ids, k)
	}
	sort.Strings(ids)
	return ids
}

// SafeEval runs Eval and maps a panic of the harness or of casket to the answer "PANIC:<first line>".
func SafeEval(s *Stream, fields []string) (out string, tags []string) {
	defer func() {
		if r := recover(); r != nil {
			msg := strings.SplitN(fmt.Sprint(r), "\n", 2)[0]
			out = "PANIC:" + msg
			tags = append(tags, "panic")
			if os.Getenv("VERIF_TRACE") != "" {
				debug.PrintStack()
			}
		}
	}()
	return s.Eval(fields)
}

func H(b []byte) string  { return hex.EncodeToString(b) }
func HS(s string) string { return hex.EncodeToString([]byte(s)) }
func UnH(s string) []byte {
	b, err := hex.DecodeString(s)
	if err != nil {
		panic("bad hex field: " + s)
	}
	return b
}
func UnHS(s string) string { return string(UnH(s)) }

// Stats is written next to the case files; the check copies it into the evidence.
type Stats struct {
	Stream      string         `json:"stream"`
	Evaluations int            `json:"evaluations"`
	Distinct    int            `json:"distinct"`
	Nontrivial  int            `json:"distinct_nontrivial"`
	Tags        map[string]int `json:"tags"`
	Samples     []string       `json:"samples"`
	Exhaustive  bool           `json:"exhaustive,omitempty"`
}

type result struct {
	fields []string
	out    string
	tags   []string
}

// Run generates and evaluates every case of the streams, writing
// <dir>/cases.in, <dir>/impl.out and <dir>/stats.json.  Corpus lines (full
// case lines including the stream name) are evaluated first.
func Run(streams []*Stream, tier string, seed uint64, dir string, corpus []string, par int) error {
	if err := os.MkdirAll(dir, 0o755); err != nil {
		return err
	}
	cf, err := os.Create(filepath.Join(dir, "cases.in"))
	if err != nil {
		return err
	}
	defer cf.Close()
	of, err := os.Create(filepath.Join(dir, "impl.out"))
	if err != nil {
		return err
	}
	defer of.Close()
	cw, ow := bufio.NewWriterSize(cf, 1<<20), bufio.NewWriterSize(of, 1<<20)
	defer cw.Flush()
	defer ow.Flush()

	var all []Stats
	for _, s := range streams {
		if s.Setup != nil {
			if err := s.Setup(); err != nil {
				return fmt.Errorf("setup %s: %v", s.Name, err)
			}
		}
		var cases [][]string
		for _, line := range corpus {
			parts := strings.Split(line, "\t")
			if parts[0] == s.Name {
				cases = append(cases, parts[1:])
			}
		}
		g := &Gen{Tier: tier, Seed: seed, Rng: NewRng(seed ^ hashName(s.Name))}
		g.emit = func(f []string) {
			cp := make([]string, len(f))
			copy(cp, f)
			for _, x := range cp {
				if strings.ContainsAny(x, "\t\n\r") {
					panic("field contains a separator in stream " + s.Name + ": " + fmt.Sprintf("%q", x))
				}
			}
			cases = append(cases, cp)
		}
		s.Gen(g)
		res := make([]result, len(cases))
		p := par
		if s.Serial || p < 1 {
			p = 1
		}
		var wg sync.WaitGroup
		ch := make(chan int, 1024)
		for w := 0; w < p; w++ {
			wg.Add(1)
			go func() {
				defer wg.Done()
				for i := range ch {
					out, tags := SafeEval(s, cases[i])
					res[i] = result{cases[i], out, tags}
				}
			}()
		}
		for i := range cases {
			ch <- i
		}
		close(ch)
		wg.Wait()
		if s.Teardown != nil {
			s.Teardown()
		}
		st := Stats{Stream: s.Name, Tags: map[string]int{}}
		seen := map[string]bool{}
		for _, r := range res {
			line := s.Name + "\t" + strings.Join(r.fields, "\t")
			if strings.ContainsAny(r.out, "\n\r") {
				r.out = strings.NewReplacer("\n", "\\n", "\r", "\\r").Replace(r.out)
			}
			fmt.Fprintln(cw, line)
			fmt.Fprintln(ow, r.out)
			st.Evaluations++
			nontrivial := len(r.tags) > 0
			for _, t := range r.tags {
				st.Tags[t]++
				if strings.HasPrefix(t, "trivial") {
					nontrivial = false
				}
			}
			if !seen[line] {
				seen[line] = true
				st.Distinct++
				if nontrivial {
					st.Nontrivial++
				}
				if len(st.Samples) < 5 && (st.Distinct%97 == 1 || len(res) < 50) {
					st.Samples = append(st.Samples, line+"\t=>\t"+r.out)
				}
			}
		}
		all = append(all, st)
	}
	b, _ := json.MarshalIndent(all, "", " ")
	return os.WriteFile(filepath.Join(dir, "stats.json"), b, 0o644)
}

func hashName(s string) uint64 {
	var h uint64 = 1469598103934665603
	for i := 0; i < len(s); i++ {
		h ^= uint64(s[i])
		h *= 1099511628211
	}
	return h
}
